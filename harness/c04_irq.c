/* C04 under the interrupt discipline, at source level: the REAL librfn/messageq.c is compiled with the shim
 * <stdatomic.h> (harness/shim), which calls vt_hook() before every atomic operation; the hook may run a complete
 * sender handler (claim, write, send) as a nested call - nested to depth MAXNEST - or, with RECV_IS_IRQ, the
 * receiver's handler.  Where each handler fires is symbolic.  Ghost ownership as in c04.c. */
#include "vt.h"
#include <stdlib.h>
#include "librfn/messageq.c"

#ifndef NS
#define NS 3
#endif
#ifndef DMAX
#define DMAX 2
#endif
#ifndef MAXNEST
#define MAXNEST 2
#endif
#ifndef NR
#define NR 2
#endif
#define HOOKS 48
struct vt_in { uint8_t depth, held0, r0; uint16_t payload[NS]; uint8_t fire[HOOKS]; uint8_t spur[HOOKS]; uint8_t mainctx; };
#include "vt_in.h"

enum { FREE, CLAIMED, SENT, HELD };
static messageq_t mq; static uint16_t *storage; static unsigned D;
static uint8_t st[DMAX]; static int owner[DMAX]; static unsigned cseq[DMAX]; static uint16_t written[DMAX];
static unsigned nclaims, nrecv, nsent_total, nrecv_total;
static bool claim_open[NS], seen_nofree[NS];
static unsigned nhook, nest, next_sender, ncas;
static bool recv_fired; static unsigned kept;
static bool spur_used;

static int slot_of(void *p)
{
	VT_ASSERT((char *)p >= (char *)storage && (char *)p < (char *)storage + D * 2);
	unsigned off = (unsigned)((char *)p - (char *)storage);
	VT_ASSERT(off % 2 == 0);
	return (int)(off / 2);
}
static void sample(void)
{
	unsigned nonfree = 0, inprog = 0;
	for (unsigned i = 0; i < DMAX; i++) if (i < D && st[i] != FREE) nonfree++;
	for (int a = 0; a < NS; a++) if (claim_open[a]) inprog++;
	for (int a = 0; a < NS; a++) if (claim_open[a] && nonfree + (inprog - 1) >= D) seen_nofree[a] = true;
}

static void sender_handler(int who)
{
	bool spur_saved = spur_used; spur_used = false;
	claim_open[who] = true; seen_nofree[who] = false; sample();
	uint16_t *m = messageq_claim(&mq);
	sample();
	claim_open[who] = false;
	if (!m) { VT_ASSERT(seen_nofree[who]); spur_used = spur_saved; return; }	/* fails only if no buffer was free at some instant during the call */
	int s = slot_of(m);
	VT_ASSERT(st[s] == FREE);				/* no buffer is handed out twice */
	st[s] = CLAIMED; owner[s] = who; cseq[s] = nclaims++;
	*m = in.payload[who];
	written[s] = in.payload[who];
	VT_ASSERT(st[s] == CLAIMED && owner[s] == who);
	messageq_send(&mq, m);
	VT_ASSERT(st[s] == CLAIMED && owner[s] == who);	/* a nested handler must not have touched this message */
	st[s] = SENT; nsent_total++;
	spur_used = spur_saved;
}

static void receiver_handler(void)
{
	uint16_t *m = messageq_receive(&mq);
	if (!m) return;
	int s = slot_of(m);
	VT_ASSERT(st[s] == SENT);				/* only sent messages, ... */
	VT_ASSERT(cseq[s] == nrecv);				/* ... in claim order, each once */
	nrecv++; nrecv_total++; st[s] = HELD;
	VT_ASSERT(*m == written[s]);				/* with the contents written before the send */
	/* releases follow receives IN ORDER: while older messages are still held (the pre-state's held0) a newer one is kept too */
	if (in.held0 == 0) { messageq_release(&mq, m); st[s] = FREE; } else kept++;
}

/* a weak compare-exchange may fail spuriously: at most once per handler invocation (so retry loops stay bounded) */
bool vt_cas_spurious(void) { unsigned i = ncas++; if (spur_used || i >= HOOKS || !(in.spur[i] & 1)) return false; spur_used = true; return true; }

void vt_hook(void)
{
	unsigned i = nhook++;
	sample();
	if (i >= HOOKS || !(in.fire[i] & 1) || nest >= MAXNEST) return;
#ifdef RECV_IS_IRQ
	if ((in.fire[i] & 2) && !recv_fired && nest == 0) { recv_fired = true; nest++; receiver_handler(); nest--; return; }
#endif
	if (next_sender < NS) { int who = next_sender++; nest++; sender_handler(who); nest--; }
	sample();
}

void h_irq(void)
{
	VT_LOAD();
	D = in.depth;
	__CPROVER_assume(D >= 1 && D <= DMAX && in.held0 <= D && in.r0 < D);
	storage = VT_MALLOC(DMAX * 2);
	__CPROVER_assume(storage != 0);
	nest = MAXNEST;						/* no interrupts during set-up */
	messageq_init(&mq, storage, D * 2, 2);
	unsigned pos = in.r0;
	for (unsigned i = 0; i < DMAX; i++) { st[i] = FREE; owner[i] = -1; }
	for (unsigned i = 0; i < DMAX; i++) if (i < in.held0) { st[pos] = HELD; pos = (pos + 1) % D; }
	mq.receivep = (unsigned char)pos; mq.sendp = (unsigned char)pos; mq.num_free = D - in.held0; mq.full_flags = 0;
	nest = 0; nhook = 0;
#ifdef RECV_IS_IRQ
	/* main context: the lowest-priority sender; the other senders and the receiver interrupt it */
	{ int who = next_sender++; sender_handler(who); }
#else
	/* main context: the receiver polling; every sender is an interrupt handler */
	for (unsigned k = 0; k < NR; k++) receiver_handler();
#endif
	nest = MAXNEST;						/* quiescence: no more interrupts */
	unsigned fired = next_sender;
	for (unsigned i = 0; i < DMAX; i++) receiver_handler();
	VT_ASSERT(nrecv_total == nsent_total);			/* every sent message was received exactly once */
	unsigned free_claims = 0;
	for (unsigned i = 0; i < DMAX + 1; i++) if (messageq_claim(&mq)) free_claims++;
	VT_ASSERT(free_claims == D - in.held0 - kept);			/* free buffers = capacity - messages still held */
	VT_WITNESS(fired == NS && nsent_total >= 2);
	VT_WITNESS(fired >= 2 && nsent_total == 0 && D == 1);	/* full queue, several claims in flight, all refused */
}
