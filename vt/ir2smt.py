"""E3: LLVM IR (clang-14, loop-free integer function) -> SMT-LIB over Int with explicit mod-2^k wrap.

Only what a leaf arithmetic kernel such as rand31_r needs.  Anything outside the
supported subset raises Unsupported, which the caller turns into "inconclusive"
(and falls back to the bit-precise cbmc query) - never into a verdict.
"""
import re
import subprocess


class Unsupported(Exception):
    pass


def emit_ir(src, root, opt="-O1"):
    """opt == "ssa": the unoptimised IR put into SSA form (mem2reg, simplifycfg) - closest to the source text."""
    base = ["clang-14", "-fno-vectorize", "-fno-slp-vectorize", "-fno-unroll-loops", "-I", root + "/include",
            "-S", "-emit-llvm", "-o", "-", src]
    if opt == "ssa":
        r = subprocess.run(base + ["-O0", "-Xclang", "-disable-O0-optnone"], capture_output=True, text=True, timeout=120)
        if r.returncode == 0:
            r = subprocess.run(["opt-14", "-passes=mem2reg,simplifycfg", "-S"], input=r.stdout, capture_output=True, text=True, timeout=120)
    else:
        r = subprocess.run(base + [opt], capture_output=True, text=True, timeout=120)
    if r.returncode != 0:
        raise Unsupported("clang failed: " + r.stderr[-500:])
    return r.stdout


def function_body(ir, name):
    m = re.search(r"^define [^\n]*@%s\(([^)]*)\)[^\n]*\{\n(.*?)^\}" % re.escape(name), ir, re.S | re.M)
    if not m:
        raise Unsupported("function %s not found in IR" % name)
    return m.group(1), m.group(2)


def _w(ty):
    m = re.fullmatch(r"i(\d+)", ty)
    if not m:
        raise Unsupported("type " + ty)
    return int(m.group(1))


class Enc:
    """Encodes one basic-block function.  Memory: a single pointer argument whose
    pointee (i32) is the symbolic input `s`; stores to it define `stored`.

    Every value carries an interval (derived from the stated input domain) so
    that a `mod 2^w` that cannot wrap is dropped, and division / remainder by a
    constant is expressed with fresh quotient and remainder variables
    (x = q*k + r, 0 <= r < k) - the form z3's arithmetic decides quickly while
    keeping the machine's mod-2^w semantics exactly."""

    def __init__(self, s_lo=0, s_hi=(1 << 32) - 1):
        self.lines = ["(declare-const s Int)"]
        self.env = {}       # %n -> smt symbol
        self.iv = {"s": (s_lo, s_hi)}
        self.ret = None
        self.stored = None
        self.insts = []
        self.qr = {}
        self.nfresh = 0

    # -- helpers -------------------------------------------------------------
    def term(self, tok, w):
        tok = tok.strip()
        if tok.startswith("%"):
            if tok not in self.env:
                raise Unsupported("use before def " + tok)
            return self.env[tok]
        if tok in ("true", "false"):
            return tok
        v = int(tok)
        if v < 0:
            v += 1 << w
        self.iv[str(v)] = (v, v)
        return str(v)

    def define(self, name, expr, iv, boolean=False):
        if not boolean and expr in self.iv:
            # plain alias (a reload, a no-op wrap): keep one symbol so quotient/remainder pairs are shared
            self.env[name] = expr
            return expr
        sym = "v" + name[1:].replace(".", "_")
        self.lines.append("(define-fun %s () %s %s)" % (sym, "Bool" if boolean else "Int", expr))
        self.env[name] = sym
        if not boolean:
            self.iv[sym] = iv
        return sym

    def named(self, expr, iv):
        """Give a compound expression a name so that quotient/remainder pairs are shared."""
        self.nfresh += 1
        sym = "t%d" % self.nfresh
        self.lines.append("(define-fun %s () Int %s)" % (sym, expr))
        self.iv[sym] = iv
        return sym

    def divmod(self, x, k):
        """(q, r) with x = q*k + r, 0 <= r < k."""
        lo, hi = self.iv[x]
        if lo >= 0 and hi < k:
            self.iv["0"] = (0, 0)
            return "0", x
        if re.fullmatch(r"-?\d+", x):
            v = int(x)
            q, r = str(v // k), str(v % k)
            self.iv[q] = (v // k, v // k)
            self.iv[r] = (v % k, v % k)
            return q, r
        key = (x, k)
        if key not in self.qr:
            self.nfresh += 1
            q, r = "q%d" % self.nfresh, "r%d" % self.nfresh
            self.lines.append("(declare-const %s Int)(declare-const %s Int)" % (q, r))
            self.lines.append("(assert (and (= %s (+ (* %d %s) %s)) (>= %s 0) (< %s %d) (>= %s %d) (<= %s %d)))" % (
                x, k, q, r, r, r, k, q, lo // k, q, hi // k))
            self.iv[q] = (lo // k, hi // k)
            self.iv[r] = (0, min(k - 1, hi) if lo >= 0 and hi // k == lo // k == 0 else k - 1)
            self.qr[key] = (q, r)
        return self.qr[key]

    def wrap(self, expr, iv, w):
        x = self.named(expr, iv)
        return self.divmod(x, 1 << w)[1]

    def mask_and(self, x, c, w):
        # and with a constant made of one contiguous run of ones
        if c == 0:
            return "0"
        lo = (c & -c).bit_length() - 1
        run = c >> lo
        if run & (run + 1):
            raise Unsupported("and with non-contiguous mask %#x" % c)
        n = run.bit_length()
        q = self.divmod(x, 1 << lo)[0] if lo else x
        r = self.divmod(q, 1 << n)[1]
        if lo == 0:
            return r
        a, b = self.iv[r]
        return self.named("(* %s %d)" % (r, 1 << lo), (a << lo, b << lo))

    # -- instructions --------------------------------------------------------
    def inst(self, line):
        line = re.sub(r",?\s*![a-zA-Z_.0-9]+ ![0-9]+", "", line).strip()
        line = re.sub(r",\s*align \d+", "", line)
        if not line or line.startswith(";"):
            return
        self.insts.append(line)
        m = re.match(r"(%[\w.]+) = (.*)", line)
        if m:
            dst, rhs = m.groups()
            op = rhs.split()[0]
            if op == "load":
                mm = re.match(r"load (i\d+), i\d+\* (%[\w.]+)", rhs)
                if not mm or mm.group(2) not in self.ptrargs:
                    raise Unsupported(line)
                src = self.stored if self.stored is not None else "s"
                self.define(dst, src, self.iv[src])
                return
            if op in ("add", "sub", "mul", "and", "or", "xor", "shl", "lshr", "udiv", "urem"):
                mm = re.match(r"%s (?:nuw |nsw |exact )*(i\d+) ([^,]+), (.+)" % op, rhs)
                ty, a, b = mm.groups()
                w = _w(ty)
                A, B = self.term(a, w), self.term(b, w)
                (al, ah), (bl, bh) = self.iv[A], self.iv[B]
                ac = int(A) if re.fullmatch(r"\d+", A) else None
                bc = int(B) if re.fullmatch(r"\d+", B) else None
                if op == "add":
                    e = self.wrap("(+ %s %s)" % (A, B), (al + bl, ah + bh), w)
                elif op == "sub":
                    e = self.wrap("(- %s %s)" % (A, B), (al - bh, ah - bl), w)
                elif op == "mul":
                    if al < 0 or bl < 0:
                        raise Unsupported(line)
                    e = self.wrap("(* %s %s)" % (A, B), (al * bl, ah * bh), w)
                elif op == "udiv" and bc:
                    e = self.divmod(A, bc)[0]
                elif op == "urem" and bc:
                    e = self.divmod(A, bc)[1]
                elif op == "and" and bc is not None:
                    e = self.mask_and(A, bc, w)
                elif op == "and" and ac is not None:
                    e = self.mask_and(B, ac, w)
                elif op == "shl" and bc is not None:
                    e = self.wrap("(* %s %d)" % (A, 1 << bc), (al << bc, ah << bc), w)
                elif op == "lshr" and bc is not None:
                    e = self.divmod(A, 1 << bc)[0]
                else:
                    raise Unsupported(line)
                self.define(dst, e, self.iv[e])
                return
            if op == "icmp":
                mm = re.match(r"icmp (\w+) (i\d+) ([^,]+), (.+)", rhs)
                pred, ty, a, b = mm.groups()
                w = _w(ty)
                A, B = self.term(a, w), self.term(b, w)
                H = 1 << (w - 1)

                def sg(x):
                    lo, hi = self.iv[x]
                    if hi < H:
                        return x
                    return "(ite (>= %s %d) (- %s %d) %s)" % (x, H, x, 1 << w, x)
                tbl = {"eq": "(= %s %s)", "ne": "(not (= %s %s))", "ugt": "(> %s %s)", "uge": "(>= %s %s)",
                       "ult": "(< %s %s)", "ule": "(<= %s %s)"}
                if pred in tbl:
                    e = tbl[pred] % (A, B)
                elif pred in ("sgt", "sge", "slt", "sle"):
                    o = {"sgt": ">", "sge": ">=", "slt": "<", "sle": "<="}[pred]
                    e = "(%s %s %s)" % (o, sg(A), sg(B))
                else:
                    raise Unsupported(line)
                self.define(dst, e, None, boolean=True)
                return
            if op == "select":
                mm = re.match(r"select i1 ([^,]+), (i\d+) ([^,]+), i\d+ (.+)", rhs)
                c, ty, a, b = mm.groups()
                w = _w(ty)
                A, B = self.term(a, w), self.term(b, w)
                (al, ah), (bl, bh) = self.iv[A], self.iv[B]
                self.define(dst, "(ite %s %s %s)" % (self.term(c, 1), A, B), (min(al, bl), max(ah, bh)))
                return
            if op in ("zext", "trunc"):
                mm = re.match(r"%s (i\d+) ([^ ]+) to (i\d+)" % op, rhs)
                t1, a, t2 = mm.groups()
                A = self.term(a, _w(t1))
                e = A if op == "zext" else self.divmod(A, 1 << _w(t2))[1]
                self.define(dst, e, self.iv[e])
                return
            raise Unsupported(line)
        mm = re.match(r"store (i\d+) ([^,]+), i\d+\* (%[\w.]+)", line)
        if mm:
            if mm.group(3) not in self.ptrargs:
                raise Unsupported(line)
            self.stored = self.term(mm.group(2), _w(mm.group(1)))
            return
        mm = re.match(r"ret (i\d+) (.+)", line)
        if mm:
            self.ret = self.term(mm.group(2), _w(mm.group(1)))
            return
        raise Unsupported(line)

    def encode(self, ir, name):
        args, body = function_body(ir, name)
        self.ptrargs = set(re.findall(r"i32\*[^,%]*(%[\w.]+)", args))
        self.lines.append("(assert (and (>= s %d) (<= s %d)))" % self.iv["s"])
        for line in body.splitlines():
            line = line.strip()
            if re.match(r"^[\w.]+:", line):
                raise Unsupported("control flow (label %s) - not a single basic block" % line)
            if line.startswith("br "):
                raise Unsupported("branch")
            self.inst(line)
        if self.ret is None or self.stored is None:
            raise Unsupported("no ret/store seen")
        self.lines.append("(define-fun ret () Int %s)" % self.ret)
        self.lines.append("(define-fun stored () Int %s)" % self.stored)
        return "\n".join(self.lines)


def solve(smt, solver="z3-new", timeout=120):
    r = subprocess.run([solver, "-in", "-T:%d" % timeout], input=smt, capture_output=True, text=True, timeout=timeout + 30)
    out = r.stdout.strip()
    if "(error" in out or "(error" in r.stderr:
        return "error", out + r.stderr
    first = out.splitlines()[0] if out else ""
    return first, out
