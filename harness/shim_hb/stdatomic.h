/* Shim <stdatomic.h> for C07's source-level hand-off scenario (harness/c07_mq.c): every atomic operation of the real
 * source first reports itself to the happens-before monitor (vt/vt_monitor.h) with the memory order WRITTEN IN THE
 * SOURCE - seq_cst for the plain generic functions, the explicit argument for the _explicit ones - and then acts as an
 * indivisible step.  Order encoding as in vt/ir2c.py: 1 relaxed (consume is treated as relaxed), 2 acquire, 3 release,
 * 4 acq_rel, 5 seq_cst.  Kind: 0 load, 1 store, 2 read-modify-write, 3 compare-exchange. */
#ifndef VT_SHIM_HB_STDATOMIC_H
#define VT_SHIM_HB_STDATOMIC_H
#include <stdbool.h>
#include <stddef.h>
#include <stdint.h>
typedef enum { memory_order_relaxed, memory_order_consume, memory_order_acquire, memory_order_release, memory_order_acq_rel, memory_order_seq_cst } memory_order;
typedef _Bool atomic_flag;
typedef _Bool atomic_bool;
typedef char atomic_char;
typedef signed char atomic_schar;
typedef unsigned char atomic_uchar;
typedef short atomic_short;
typedef unsigned short atomic_ushort;
typedef int atomic_int;
typedef unsigned int atomic_uint;
typedef long atomic_long;
typedef unsigned long atomic_ulong;
#define VT_ORD(o) ((int)(o) <= 1 ? 1 : (int)(o))
#define ATOMIC_VAR_INIT(v) (v)
#define atomic_init(p, v) (*(p) = (v))
#define atomic_thread_fence(o) ((void)0)	/* none in the sources; vt_monitor.h does not model thread fences */
#define atomic_signal_fence(o) ((void)0)
#define atomic_store_explicit(p, v, o) (VT_ACCESS((p), sizeof(*(p)), 1, VT_ORD(o)), (void)(*(p) = (v)))
#define atomic_store(p, v) atomic_store_explicit(p, v, memory_order_seq_cst)
#define atomic_load_explicit(p, o) (VT_ACCESS((p), sizeof(*(p)), 0, VT_ORD(o)), *(p))
#define atomic_load(p) atomic_load_explicit(p, memory_order_seq_cst)
#define VT_RMW(p, v, OP, o) ({ VT_ACCESS((p), sizeof(*(p)), 2, VT_ORD(o)); __typeof__(*(p)) vt_old = *(p); *(p) = (__typeof__(*(p)))(vt_old OP (v)); vt_old; })
#define atomic_fetch_add_explicit(p, v, o) VT_RMW(p, v, +, o)
#define atomic_fetch_sub_explicit(p, v, o) VT_RMW(p, v, -, o)
#define atomic_fetch_or_explicit(p, v, o) VT_RMW(p, v, |, o)
#define atomic_fetch_and_explicit(p, v, o) VT_RMW(p, v, &, o)
#define atomic_fetch_xor_explicit(p, v, o) VT_RMW(p, v, ^, o)
#define atomic_fetch_add(p, v) VT_RMW(p, v, +, memory_order_seq_cst)
#define atomic_fetch_sub(p, v) VT_RMW(p, v, -, memory_order_seq_cst)
#define atomic_fetch_or(p, v) VT_RMW(p, v, |, memory_order_seq_cst)
#define atomic_fetch_and(p, v) VT_RMW(p, v, &, memory_order_seq_cst)
#define atomic_fetch_xor(p, v) VT_RMW(p, v, ^, memory_order_seq_cst)
#define atomic_exchange_explicit(p, v, o) ({ VT_ACCESS((p), sizeof(*(p)), 2, VT_ORD(o)); __typeof__(*(p)) vt_old = *(p); *(p) = (v); vt_old; })
#define atomic_exchange(p, v) atomic_exchange_explicit(p, v, memory_order_seq_cst)
#define atomic_compare_exchange_strong_explicit(p, e, d, so, fo) ({ VT_ACCESS((p), sizeof(*(p)), 3, VT_ORD(so)); bool vt_ok = (*(p) == *(e)); if (vt_ok) *(p) = (d); else *(e) = *(p); vt_ok; })
#define atomic_compare_exchange_weak_explicit(p, e, d, so, fo) atomic_compare_exchange_strong_explicit(p, e, d, so, fo)
#define atomic_compare_exchange_strong(p, e, d) atomic_compare_exchange_strong_explicit(p, e, d, memory_order_seq_cst, memory_order_seq_cst)
#define atomic_compare_exchange_weak(p, e, d) atomic_compare_exchange_strong_explicit(p, e, d, memory_order_seq_cst, memory_order_seq_cst)
#endif
