from ..core import Query

U = ["librfn/bintree.c", "librfn/util.c"]
META = {
    "level": "model_checking",
    "functions": ["bintree_iterate_in_order", "bintree_iterate_pre_order", "bintree_iterate_post_order", "bintree_iterate_list", "bintree_next",
                  "bintree_iterate_complete", "in_order_iterator", "pre_order_iterator", "post_order_iterator", "list_left_iterator", "list_right_iterator",
                  "bintree_free", "bintree_free_left", "bintree_free_right", "bintree_traverse_{in,pre,post}_order, bintree_traverse_list (as order oracle)"],
    "units": ["librfn/bintree.c", "include/librfn/bintree.h"],
    "bounds": {"quick": "every binary tree shape with 1..4 nodes (symbolic child indices) for the three iterators; 1..3 nodes for abandoned-then-completed iteration, 1..4 nodes for "
                        "bintree_free / free_left / free_right (heap nodes, free() as deallocator); list iterator on left- and right-leaning spines "
                        "of up to 2 list nodes + 3 elements; the empty tree",
               "thorough": "shapes with 1..5 nodes for in-order / pre-order, 1..4 for post-order, completion and free; spines as in the quick tier (3 list nodes + 4 elements exceed 14 GB)"},
    "outside": ["trees with more nodes than stated", "list spines that are neither left- nor right-leaning, or that contain NULL elements (property scope)",
                "nodes that are not 2-byte aligned (property scope)"],
    "assumptions": ["malloc does not fail (harness)", "the recursive traversals in bintree.c define the promised order"],
    "rule": "distinct = harness entry x node bound.",
}


def queries(tier, kf):
    q = tier == "quick"
    cfg = [("inorder", "h_inorder", 4 if q else 5, {}), ("preorder", "h_preorder", 4 if q else 5, {}), ("postorder", "h_postorder", 4 if q else 4, {}),
           ("complete-in", "h_complete", 3 if q else 4, {"DIR": 0}), ("complete-pre", "h_complete", 3 if q else 4, {"DIR": 1}),
           ("complete-post", "h_complete", 3 if q else 4, {"DIR": 2}),
           ("list", "h_list", 5, {}), ("free", "h_free", 4, {}),
           ("free-lr", "h_free_lr", 4, {}), ("empty", "h_empty", 2, {})]
    qs = []
    for name, entry, n, dx in cfg:
        qs.append(Query("c11-%s-n%d" % (name, n), "c11.c", entry, units=U, defines=dict({"NMAX": n}, **dx), unwind=n + 3, timeout=3000, mem_gb=14))
    cans = [("unthread", "\t\t\tprev->right = NULL;\n\t\t\titer->curr = curr->right;\n\t\t\treturn curr;", "\t\t\titer->curr = curr->right;\n\t\t\treturn curr;", "h_inorder", 3),
            ("untag", "\t\ttmp->left =\n\t\t    (bintree_node_t *)(((uintptr_t)tmp->left) & (uintptr_t)-2);\n\n\t\t/*\n\t\t * check if we", "\t\t/*\n\t\t * check if we", "h_postorder", 3),
            ("freelink", "\t\t\tif (iter.parent->right == n)\n\t\t\t\titer.parent->right = NULL;\n\t\t\telse\n\t\t\t\titer.parent->left = (bintree_node_t *) 1;", "", "h_free", 3),
            ("listleft", "\tif (curr == parent) {\n\t\titer->curr = NULL;\n\t\treturn curr->right;", "\tif (curr == parent) {\n\t\titer->curr = NULL;\n\t\treturn curr->left;", "h_list", 5)]
    for n, old, new, entry, nn in cans:
        qs.append(Query("c11-canary-" + n, "c11.c", entry, units=U, defines={"NMAX": nn}, unwind=nn + 3, role="canary",
                        mutate=[("librfn/bintree.c", old, new)], timeout=1200, mem_gb=12))
    return qs
