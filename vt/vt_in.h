/* include after `struct vt_in` is complete */
static struct vt_in in;
#ifdef VT_REPLAY
#include "vt_replay_values.h"
__attribute__((weak)) uint32_t time_now(void) { return 0; }	/* only util.c's ratelimit helper wants it */
void VT_ENTRY(void);
int main(void) { VT_ENTRY(); fprintf(stderr, "VT: completed without violation\n"); return 0; }
#else
struct vt_in nondet_vt_in(void);
#endif
