import os
import subprocess
import tempfile
import time

from .. import core, ir2smt
from ..core import Query

U = ["librfn/rand.c"]
M = 0x7fffffff
META = {
    "level": "model_checking",
    "functions": ["rand31_r"],
    "units": ["librfn/rand.c"],
    "bounds": {"quick": "all states s in 1..2^31-2 at once; E3: clang-14 IR (unoptimised, put in SSA form by mem2reg+simplifycfg; thorough adds the -O1 IR) of rand31_r translated to SMT-LIB over Int with explicit "
                        "mod 2^32 wrap, z3 5.1; no loop, no unwinding",
               "thorough": "as quick, plus the bit-precise query: cbmc on the C source, kissat, all states at once"},
    "outside": ["full period 2^31-2 follows from the multiplicative order of 16807 modulo 2^31-1 (cited number theory, not re-proved)",
                "seed 0 and seeds >= 2^31-1 (outside the property's domain)"],
    "assumptions": ["E3 uses wrapping semantics for nuw/nsw-flagged IR arithmetic (sound when the source has no UB; the cbmc query checks the source's own overflow conditions)",
                    "z3 5.1 (z3-new) Int theory; any (error line or disagreement with the concrete cross-check is reported as inconclusive"],
    "rule": "E3 queries are validated per run by evaluating the encoding on concrete seeds and comparing with the natively compiled rand.c.",
}

SEEDS = [1, 2, 16807, 0x7ffffffe, 1043618065, 0x10000, 0xffff, 0x7fff0000, 0x12345678, 46341]


def native_values(root, wd):
    src = os.path.join(wd, "nat.c")
    open(src, "w").write('#include <stdio.h>\n#include <stdint.h>\n#include "librfn/rand.h"\nint main(void){unsigned long long v;'
                         'while(scanf("%llu",&v)==1){uint32_t s=(uint32_t)v;uint32_t r=rand31_r(&s);printf("%u %u\\n",r,s);}return 0;}\n')
    exe = os.path.join(wd, "nat")
    r = subprocess.run(["gcc", "-O1", "-I", root + "/include", "-o", exe, src, root + "/librfn/rand.c"], capture_output=True, text=True)
    if r.returncode:
        raise RuntimeError("native build failed: " + r.stderr[-400:])
    r = subprocess.run([exe], input="\n".join(map(str, SEEDS)), capture_output=True, text=True)
    return [tuple(map(int, l.split())) for l in r.stdout.split("\n") if l.strip()]


def smt_runner(opt):
    def run(q):
        t0 = time.time()
        res = {"name": q.name, "role": q.role, "harness": q.harness, "entry": q.entry, "backend": "z3-new (Int)", "status": "error",
               "failed": [], "tolerated": [], "note": q.note, "defines": {}, "mutate": [list(m) for m in q.mutate], "detail": ""}
        wd = tempfile.mkdtemp(prefix="q-", dir=core.scratch())
        try:
            root, err = core.repo_root_for(q, wd)
            if err:
                res["status"] = "skipped"
                res["detail"] = err
                return res
            try:
                ir = ir2smt.emit_ir(os.path.join(root, "librfn/rand.c"), root, opt)
                enc = ir2smt.Enc(1, M - 1)
                decls = enc.encode(ir, "rand31_r")
            except ir2smt.Unsupported as e:
                # outside the translator's subset: fall back to the bit-precise query, never guess
                fb = Query(q.name + "-fallback-cbmc", "c17.c", "h_rand", units=U, backend="kissat", timeout=900, mem_gb=8,
                           role=q.role, mutate=q.mutate, note="E3 could not encode this IR (%s); bit-precise cbmc/kissat instead" % e)
                r = core.run_query(fb)
                r["name"] = q.name
                return r
            res["ir_instructions"] = enc.insts
            res["steps"] = len(enc.insts)
            dom = ""   # the domain 1..2^31-2 is asserted by the encoder (it also drives its interval analysis)
            good = "(and (= ret (mod (* 16807 s) %d)) (= stored ret) (>= ret 1) (<= ret %d))" % (M, M - 1)
            # 1. translator validation on concrete seeds against the natively compiled function
            nat = native_values(root, wd)
            script = decls + "\n"
            for s in SEEDS:
                script += "(push)(assert (= s %d))(check-sat)(get-value (ret stored))(pop)\n" % s
            st, out = ir2smt.solve(script)
            import re
            got = [tuple(map(int, m)) for m in re.findall(r"\(\(ret (\d+)\)\s*\(stored (\d+)\)\)", out)]
            if st == "error" or got != nat:
                res["detail"] = "translator validation failed: encoding %s vs native %s" % (got, nat)
                return res
            res["translator_validation"] = {"seeds": SEEDS, "agree": True}
            # 2. the property, all states at once
            st, out = ir2smt.solve(decls + "\n" + dom + "\n(assert (not %s))\n(check-sat)\n" % good, timeout=q.timeout)
            if st == "sat":
                st, out = ir2smt.solve(decls + "\n" + dom + "\n(assert (not %s))\n(check-sat)\n(get-value (s ret stored))\n" % good, timeout=q.timeout)
            res["variables"] = 1
            res["solver_s"] = round(time.time() - t0, 2)
            if st == "unsat":
                # 3. non-vacuity: the domain is satisfiable and reaches a known output
                st2, out2 = ir2smt.solve(decls + "\n" + dom + "\n(assert (= ret 1043618065))\n(check-sat)\n(get-value (s))\n")
                res["witness_reached"] = (st2 == "sat")
                m = re.search(r"\(\(s (\d+)\)\)", out2)
                res["inputs"] = {"s": int(m.group(1))} if m else None
                res["status"] = "pass"
            elif st == "sat":
                m = re.search(r"\(s (\d+)\)", out)
                res["status"] = "fail"
                res["failed"] = [{"property": "rand31_r == 16807*s mod (2^31-1)", "description": "E3 counterexample " + out.replace("\n", " ")[:200],
                                  "file": "rand.c", "line": None, "function": "rand31_r", "inputs": {"s": int(m.group(1))}}]
            else:
                res["status"] = "timeout" if "timeout" in out or st == "unknown" else "error"
                res["detail"] = out[:500]
            return res
        finally:
            res["total_s"] = round(time.time() - t0, 2)
            res["wall_s"] = res["total_s"]
            import shutil
            shutil.rmtree(wd, ignore_errors=True)
    return run


def queries(tier, kf):
    qs = []
    for opt in (("ssa",) if tier == "quick" else ("ssa", "-O1")):
        q = Query("c17-smt-int-" + opt.strip("-"), "c17.c", "h_rand", units=U, engine="custom",
                  note="E3: IR(%s) -> SMT-LIB Int with mod 2^32, z3 5.1; validated on %d concrete seeds against the native build" % (opt, len(SEEDS)))
        q.runner = smt_runner(opt)
        qs.append(q)
    for i, (old, new) in enumerate([("lo += hi >> 15;", "lo += hi >> 16;"),
                                    ("if (lo > 0x7fffffff)", "if (lo > 0x80000000)"),
                                    ("lo -= 0x7fffffff;", "lo -= 0x80000000;")]):
        q = Query("c17-canary-%d" % i, "c17.c", "h_rand", units=U, engine="custom", role="canary", mutate=[("librfn/rand.c", old, new)])
        q.runner = smt_runner("ssa")
        qs.append(q)
    if tier == "thorough":
        qs.append(Query("c17-cbmc-bitprecise", "c17.c", "h_rand", units=U, backend="kissat", timeout=1500, mem_gb=8,
                        note="bit-precise reference query on the C source (all 2^31-2 states, kissat)"))
    return qs
