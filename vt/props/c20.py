from ..core import Query

META = {
    "level": "model_checking",
    "functions": ["mlog", "vmlog", "mlog_nice", "vmlog_nice", "mlog_clear", "get_line", "mlog_get_line", "mlog_dump"],
    "units": ["librfn/mlog.c (included into the harness TU to reach the static log)"],
    "bounds": {"quick": "one operation + one observation from ANY valid state: message count n anywhere in [0, 2^40) (so the fold of the internal "
                        "counter at 0x7fffffff is one value among all), tracked slot any of 256 with symbolic contents, get_line(k) for every int k, "
                        "mlog_dump on logs of up to 16 messages (fully unwound). Inductive: covers histories of any length",
               "thorough": "as quick, plus mlog_dump on logs of 0..4 messages (loop fully unwound) and two more canaries"},
    "outside": ["mlog_dump beyond its first two lines on logs longer than 4 messages: not decided by the solver (each read through the line pointer costs ~0.5 M variables under "
                "--no-simplify; 4 iterations already need 8.6 GB). The function is `for (i = 0; (line = get_line(i)); i++) fprintf(f, line->fmt, args)`; "
                "get_line itself is covered for every count and every i",
                "n >= 2^40 (technical cap on the ghost count; the representation is periodic in n mod 256 beyond the fold)",
                "messages read back with more arguments than were passed (mlog always stores three)"],
    "assumptions": ["strdup_printf and fprintf are capture stubs (formatting is libc's business)",
                    "cbmc --no-simplify: cbmc 6.11's expression simplifier mis-reads log.line[i].arg[k] through a symbolic index (DESIGN.md section 2)",
                    "representation invariant: head = n below 0x7fffffff, else 0x7ffffeff + (n - 0x7fffffff) mod 256; slot j holds the newest message = j mod 256"],
    "rule": "distinct = harness entry x count range.",
}


def queries(tier, kf):
    qs = [Query("c20-step-getline", "c20.c", "h_step", defines={"OBS": 0}, unwind=258, no_simplify=True, timeout=1800, mem_gb=10,
                note="any of mlog / mlog_nice / mlog_clear / no-op from any count, then mlog_get_line(k) for every int k"),
          Query("c20-dump-prefix", "c20.c", "h_step", defines={"OBS": 2, "PREFIX": 2}, unwind=4, no_simplify=True, timeout=1800, mem_gb=12,
                note="the first two lines written by mlog_dump, for EVERY message count incl. wrapped logs and the counter fold: judged inside the fprintf stub, path cut afterwards"),
          Query("c20-base", "c20.c", "h_base", unwind=258, no_simplify=True, timeout=300)]
    if tier == "thorough":
        qs.append(Query("c20-step-dump", "c20.c", "h_step", defines={"OBS": 1, "N_LO": 0, "N_HI": 3}, unwind=7, no_simplify=True, timeout=2400, mem_gb=16,
                        note="mlog_dump on logs of 0..4 messages, loop fully unwound (8.6 GB / 270 s: every read through the line pointer costs ~0.5 M variables without the simplifier)"))
    cans = [("foldpoint", "if (log.head >= 0x7fffffff)", "if (log.head > 0x7fffffff)", 0),
            ("nice", "if (log.head < lengthof(log.line))", "if (log.head <= lengthof(log.line))", 1),
            ("wrapadj", "\t\tn += log.head;", "\t\tn += log.head + 1;", 3),
            ("neg", "if (n >= log.head || n >= lengthof(log.line))", "if (n > log.head || n >= lengthof(log.line))", 3)]
    if tier == "quick":
        cans = cans[:2]
    for n, old, new, op in cans:
        qs.append(Query("c20-canary-" + n, "c20.c", "h_step", defines={"OBS": 0, "OP": op}, unwind=258, no_simplify=True, timeout=1200, mem_gb=8, role="canary",
                        mutate=[("librfn/mlog.c", old, new)]))
    return qs
