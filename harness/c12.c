/* C12: pack/unpack never leaves the buffer, fails stickily, fixed byte order.
 * Real code: every function librfn/pack.c implements (linked).
 * h_step: ONE operation from an arbitrary cursor (including the sticky overrun state), buffer is an
 *         exactly-sized heap object so cbmc's dereference checks decide "no byte outside the buffer".
 * h_seq : NOPS operations from rf_pack_init, model in lock step (pack then unpack round trip included). */
#include "vt.h"
#include <stdlib.h>
#include "librfn/pack.h"
#ifndef MAXSZ
#define MAXSZ 12
#endif
#ifndef NOPS
#define NOPS 3
#endif
#define MAXN 6
struct op { uint8_t kind; uint32_t v; uint8_t n; uint8_t isnull; uint8_t src[MAXN]; };
struct vt_in { uint32_t sz, cur; uint8_t img[MAXSZ]; struct op op[NOPS]; };
#include "vt_in.h"

enum { P_BYTES, P_S16LE, P_U16BE, P_U16LE, P_S32LE, P_U32LE, U_BYTES, U_CHAR, U_S8, U_U8, U_U16LE, U_U32LE, NKIND };

/* reference model: byte image + integer cursor; an item that does not fit is not transferred and the cursor
 * still advances, so every later item fails too */
struct model { uint8_t b[MAXSZ]; uint32_t sz; uint32_t cur; };

static uint32_t op_len(const struct op *o)
{
	switch (o->kind) {
	case P_BYTES: case U_BYTES: return o->n;
	case P_S16LE: case P_U16BE: case P_U16LE: case U_U16LE: return 2;
	case P_S32LE: case P_U32LE: case U_U32LE: return 4;
	default: return 1;
	}
}

/* performs the operation on the real code and on the model, asserts outputs agree */
static void do_op(rf_pack_t *pk, struct model *m, const struct op *o)
{
	uint32_t n = op_len(o), c = m->cur;
	bool fits = c <= m->sz && n <= m->sz - c;
	uint8_t e[MAXN]; for (int i = 0; i < MAXN; i++) e[i] = 0;
	uint32_t v = o->v;
	uint8_t out[MAXN]; for (int i = 0; i < MAXN; i++) out[i] = 0xa5;
	switch (o->kind) {
	case P_BYTES: { uint8_t src[MAXN]; for (int i = 0; i < MAXN; i++) src[i] = o->src[i];
			rf_pack_bytes(pk, o->isnull ? 0 : (void *)src, n);
			for (uint32_t i = 0; i < MAXN; i++) if (i < n) e[i] = o->isnull ? 0 : o->src[i]; } break;	/* NULL source packs zeros */
	case P_S16LE: rf_pack_s16le(pk, (int16_t)v); e[0] = v; e[1] = v >> 8; break;
	case P_U16BE: rf_pack_u16be(pk, (uint16_t)v); e[0] = v >> 8; e[1] = v; break;
	case P_U16LE: rf_pack_u16le(pk, (uint16_t)v); e[0] = v; e[1] = v >> 8; break;
	case P_S32LE: rf_pack_s32le(pk, (int32_t)v); e[0] = v; e[1] = v >> 8; e[2] = v >> 16; e[3] = v >> 24; break;
	case P_U32LE: rf_pack_u32le(pk, v); e[0] = v; e[1] = v >> 8; e[2] = v >> 16; e[3] = v >> 24; break;
	case U_BYTES: { rf_unpack_bytes(pk, o->isnull ? 0 : (void *)out, n);		/* NULL destination skips */
			for (uint32_t i = 0; i < MAXN; i++) {
				if (o->isnull || i >= n) VT_ASSERT(out[i] == 0xa5);		/* nothing beyond the request */
				else VT_ASSERT(out[i] == (fits ? m->b[c + i] : 0));		/* zero-filled on overflow */
			} } break;
	case U_CHAR: { char g = rf_unpack_char(pk); VT_ASSERT((uint8_t)g == (fits ? m->b[c] : 0)); } break;
	case U_S8:   { int8_t g = rf_unpack_s8(pk); VT_ASSERT((uint8_t)g == (fits ? m->b[c] : 0)); } break;
	case U_U8:   { uint8_t g = rf_unpack_u8(pk); VT_ASSERT(g == (fits ? m->b[c] : 0)); } break;
	case U_U16LE: { uint16_t g = rf_unpack_u16le(pk);
			VT_ASSERT(g == (fits ? (uint16_t)(m->b[c] | m->b[c + 1] << 8) : 0)); } break;
	case U_U32LE: { uint32_t g = rf_unpack_u32le(pk);
			VT_ASSERT(g == (fits ? ((uint32_t)m->b[c] | (uint32_t)m->b[c + 1] << 8 | (uint32_t)m->b[c + 2] << 16 | (uint32_t)m->b[c + 3] << 24) : 0)); } break;
	}
	if (o->kind < U_BYTES && fits)
		for (uint32_t i = 0; i < MAXN; i++) if (i < n) m->b[c + i] = e[i];
	m->cur = c + n;		/* counts every requested byte */
}

static void check_state(rf_pack_t *pk, struct model *m, const uint8_t *buf)
{
	VT_ASSERT(rf_pack_consumed(pk) == (int)m->cur);
	VT_ASSERT(rf_pack_remaining(pk) == (int)m->sz - (int)m->cur);	/* negative once overrun */
	for (uint32_t i = 0; i < MAXSZ; i++) if (i < m->sz) VT_ASSERT(buf[i] == m->b[i]);
}

static void constrain(const struct op *o)
{
	__CPROVER_assume(o->kind < NKIND && o->n <= MAXN && o->isnull <= 1);
}

void h_step(void)
{
	VT_LOAD();
	uint32_t sz = in.sz, cur = in.cur;
	__CPROVER_assume(sz <= MAXSZ && cur <= sz + 40);
	constrain(&in.op[0]);
	uint8_t *buf = VT_MALLOC(sz);
	__CPROVER_assume(buf != 0);
	struct model m; m.sz = sz; m.cur = cur;
	for (uint32_t i = 0; i < MAXSZ; i++) { m.b[i] = in.img[i]; if (i < sz) buf[i] = in.img[i]; }
	rf_pack_t pk;
	rf_pack_init(&pk, buf, sz);
	VT_ASSERT(rf_pack_consumed(&pk) == 0 && rf_pack_remaining(&pk) == (int)sz);
	pk.p = pk.basep + cur;			/* cursor anywhere: cur > sz is the overflow state */
	check_state(&pk, &m, buf);
	do_op(&pk, &m, &in.op[0]);
	check_state(&pk, &m, buf);
	VT_WITNESS(in.op[0].kind == P_U32LE && cur + 4 == sz && sz == MAXSZ);	/* exact fit at the end */
	VT_WITNESS(cur > sz + 30 && in.op[0].kind == U_U32LE);			/* deep in the sticky overflow state */
	VT_WITNESS(cur + 1 == sz && in.op[0].kind == U_BYTES && in.op[0].n == 2 && !in.op[0].isnull);	/* straddles the end */
}

void h_seq(void)
{
	VT_LOAD();
	uint32_t sz = in.sz;
	__CPROVER_assume(sz <= MAXSZ);
	uint8_t *buf = VT_MALLOC(sz);
	__CPROVER_assume(buf != 0);
	struct model m; m.sz = sz; m.cur = 0;
	for (uint32_t i = 0; i < MAXSZ; i++) { m.b[i] = in.img[i]; if (i < sz) buf[i] = in.img[i]; }
	rf_pack_t pk;
	rf_pack_init(&pk, buf, sz);
	for (int k = 0; k < NOPS; k++) {
		constrain(&in.op[k]);
		do_op(&pk, &m, &in.op[k]);
		check_state(&pk, &m, buf);
	}
	VT_WITNESS(m.cur > sz && in.op[0].kind == P_U16BE && in.op[NOPS - 1].kind == U_BYTES);	/* crosses the end */
}

/* pack then unpack returns the original values (all 32-bit values, every alignment in the buffer) */
void h_roundtrip(void)
{
	VT_LOAD();
	uint32_t sz = in.sz, off = in.cur;
	__CPROVER_assume(sz <= MAXSZ && off <= 2);
	uint8_t *buf = VT_MALLOC(sz);
	__CPROVER_assume(buf != 0);
	rf_pack_t pk, up;
	rf_pack_init(&pk, buf, sz);
	rf_pack_bytes(&pk, 0, off);
	rf_pack_u32le(&pk, in.op[0].v); rf_pack_u16le(&pk, (uint16_t)in.op[1].v); rf_pack_s16le(&pk, (int16_t)in.op[2].v);
	int ok = rf_pack_remaining(&pk) >= 0;
	rf_pack_init(&up, buf, sz);
	rf_unpack_bytes(&up, 0, off);
	uint32_t a = rf_unpack_u32le(&up); uint16_t b = rf_unpack_u16le(&up); uint16_t c = rf_unpack_u16le(&up);
	if (ok) { VT_ASSERT(a == in.op[0].v && b == (uint16_t)in.op[1].v && c == (uint16_t)in.op[2].v); VT_ASSERT(rf_pack_remaining(&up) == rf_pack_remaining(&pk)); }
	VT_WITNESS(ok && off == 2 && a == 0x80000001u);
}
