/* Shim <stdatomic.h> for the source-level interrupt-discipline harnesses (C03/C04/C06).
 * It is found before the system header because harness/shim is first on the include path.
 * Model: sequentially consistent atomics on ONE core - every operation is an indivisible step, and immediately
 * BEFORE each one an interrupt may be taken: vt_hook() is called, and the harness decides (symbolically) whether a
 * handler runs there.  Nothing else is modelled (no weak memory, no second core: that is what the IR step machines
 * and the happens-before monitor are for). */
#ifndef VT_SHIM_STDATOMIC_H
#define VT_SHIM_STDATOMIC_H
#include <stdbool.h>
#include <stddef.h>
#include <stdint.h>
void vt_hook(void);
bool vt_cas_spurious(void);
typedef enum { memory_order_relaxed, memory_order_consume, memory_order_acquire, memory_order_release, memory_order_acq_rel, memory_order_seq_cst } memory_order;
typedef _Bool atomic_flag;
typedef _Bool atomic_bool;
typedef char atomic_char;
typedef signed char atomic_schar;
typedef unsigned char atomic_uchar;
typedef short atomic_short;
typedef unsigned short atomic_ushort;
typedef int atomic_int;
typedef unsigned int atomic_uint;
typedef long atomic_long;
typedef unsigned long atomic_ulong;
#define ATOMIC_VAR_INIT(v) (v)
#define atomic_init(p, v) (*(p) = (v))
#define atomic_thread_fence(o) ((void)0)
#define atomic_signal_fence(o) ((void)0)
#define atomic_store(p, v) (vt_hook(), (void)(*(p) = (v)))
#define atomic_store_explicit(p, v, o) atomic_store(p, v)
#define atomic_load(p) (vt_hook(), *(p))
#define atomic_load_explicit(p, o) atomic_load(p)
#define VT_RMW(p, v, OP) ({ vt_hook(); __typeof__(*(p)) vt_old = *(p); *(p) = (__typeof__(*(p)))(vt_old OP (v)); vt_old; })
#define atomic_fetch_add(p, v) VT_RMW(p, v, +)
#define atomic_fetch_sub(p, v) VT_RMW(p, v, -)
#define atomic_fetch_or(p, v) VT_RMW(p, v, |)
#define atomic_fetch_and(p, v) VT_RMW(p, v, &)
#define atomic_fetch_xor(p, v) VT_RMW(p, v, ^)
#define atomic_fetch_add_explicit(p, v, o) atomic_fetch_add(p, v)
#define atomic_fetch_sub_explicit(p, v, o) atomic_fetch_sub(p, v)
#define atomic_fetch_or_explicit(p, v, o) atomic_fetch_or(p, v)
#define atomic_fetch_and_explicit(p, v, o) atomic_fetch_and(p, v)
#define atomic_exchange(p, v) ({ vt_hook(); __typeof__(*(p)) vt_old = *(p); *(p) = (v); vt_old; })
#define atomic_compare_exchange_strong(p, e, d) ({ vt_hook(); bool vt_ok = (*(p) == *(e)); if (vt_ok) *(p) = (d); else *(e) = *(p); vt_ok; })
#define atomic_compare_exchange_weak(p, e, d) ({ vt_hook(); bool vt_ok = (*(p) == *(e)) && !vt_cas_spurious(); if (vt_ok) *(p) = (d); else *(e) = *(p); vt_ok; })
#endif
