/* C20: the memory log always holds the most recent 256 messages, oldest first.
 * Real code: librfn/mlog.c, #included so that the static `log` can be given arbitrary valid contents.
 * One operation (mlog | mlog_nice | mlog_clear | none) from an ARBITRARY valid state with ghost message
 * count n < 2^40 (so the 2^31 counter fold is just one value of n), then one observation
 * (mlog_get_line(k) for any int k, or mlog_dump).  The message written by the step has symbolic contents; the
 * 256 slots start with distinct index-tagged contents. */
#include "vt.h"
#include <stdio.h>
#include <stdarg.h>
#include <stdlib.h>
#ifndef OBS
#define OBS 0
#endif
static int vt_fprintf(FILE *f, const char *fmt, uintptr_t a0, uintptr_t a1, uintptr_t a2);
#define fprintf vt_fprintf
#include "librfn/mlog.c"
#undef fprintf

struct vt_in { uint64_t n; uint8_t op; uint8_t fn; uint64_t an[3]; int32_t k; uint8_t obs; };
#include "vt_in.h"

static const char *const fmts[4] = { "A %d %d %d", "B %x %x %x", "C %u", "D" };
/* every slot starts with contents that are a function of its index (distinct tags), set by ONE struct copy from a
 * constant template: which slot the code reads is then visible in what it returns, at no symbolic-write cost */
static const char pool[256];
#define L1(i) { pool + (i), { 0x1000 + (i), 0x2000 + (i), 0x3000 + (i) } }
#define L4(i) L1(i), L1(i + 1), L1(i + 2), L1(i + 3)
#define L16(i) L4(i), L4(i + 4), L4(i + 8), L4(i + 12)
#define L64(i) L16(i), L16(i + 16), L16(i + 32), L16(i + 48)
static const struct mlog tmpl = { { L64(0), L64(64), L64(128), L64(192) }, 0 };

/* capture stubs: record (fmt, args) instead of formatting */
static unsigned ncalls; static const char *cap_fmt; static uintptr_t cap_a[3];
static unsigned want_call;	/* which fprintf call of a dump to capture */
char *strdup_printf(const char *fmt, ...)
{
	va_list ap; va_start(ap, fmt);
	cap_fmt = fmt; cap_a[0] = va_arg(ap, uintptr_t); cap_a[1] = va_arg(ap, uintptr_t); cap_a[2] = va_arg(ap, uintptr_t);
	va_end(ap); ncalls++;
	return (char *)fmts[0];	/* any non-NULL token */
}
static void dump_prefix_oracle(void);
static int vt_fprintf(FILE *f, const char *fmt, uintptr_t a0, uintptr_t a1, uintptr_t a2)
{
	(void)f;
	if (ncalls == want_call) { cap_fmt = fmt; cap_a[0] = a0; cap_a[1] = a1; cap_a[2] = a2; }
	ncalls++;
#if OBS == 2
	/* dump-prefix lemma: judge the want_call-th line right here and cut the path, so that the 256-iteration loop of
	 * mlog_dump need not be unwound - the claim is about the FIRST lines of the dump, for every message count */
	if (ncalls == want_call + 1) { dump_prefix_oracle(); __CPROVER_assume(0); }
#endif
	return 0;
}

#define FOLD 0x7fffffffull
static unsigned fold(uint64_t n) { return n < FOLD ? (unsigned)n : (unsigned)(FOLD - 256 + ((n - FOLD) % 256)); }

#ifndef PREFIX
#define PREFIX 2
#endif
static uint64_t g_n, g_n2; static bool g_wrote, g_tracked; static uint32_t g_newslot; static int g_k;
static void dump_prefix_oracle(void)
{
	uint64_t avail = g_n2 < 256 ? g_n2 : 256;
	VT_ASSERT((uint64_t)g_k < avail);			/* a line is printed only if that many messages are held */
	uint64_t msg = g_n2 - avail + (uint64_t)g_k;		/* oldest first */
	uint32_t slot = (uint32_t)(msg % 256);
	if (g_wrote && slot == g_newslot)
		VT_ASSERT(cap_fmt == fmts[in.fn] && cap_a[0] == (uintptr_t)in.an[0] && cap_a[1] == (uintptr_t)in.an[1] && cap_a[2] == (uintptr_t)in.an[2]);
	else
		VT_ASSERT(g_tracked && cap_fmt == pool + slot && cap_a[0] == 0x1000 + slot && cap_a[1] == 0x2000 + slot && cap_a[2] == 0x3000 + slot);
	VT_WITNESS(g_n == 257 && g_k == 0);			/* a wrapped log */
	VT_WITNESS(g_n == FOLD + 5 && g_k == 1 && g_wrote);
}

void h_step(void)
{
	VT_LOAD();
	uint64_t n = in.n;
	__CPROVER_assume(n < (1ull << 40));
#ifdef N_LO
	__CPROVER_assume(n >= N_LO && n <= N_HI);
#endif
	__CPROVER_assume(in.fn < 4 && in.op < 4 && in.obs == OBS);	/* the observation kind is a query parameter */
#ifdef OP
	__CPROVER_assume(in.op == OP);					/* so is the operation (one query per kind, in parallel) */
#endif
	log = tmpl;
	log.head = fold(n);

	/* the operation */
	uint64_t n2 = n; bool wrote = false; uint32_t newslot = 0;
	bool tracked = n > 0;
	if (in.op == 0) { mlog(fmts[in.fn], (uintptr_t)in.an[0], (uintptr_t)in.an[1], (uintptr_t)in.an[2]); wrote = true; }
	else if (in.op == 1) { mlog_nice(fmts[in.fn], (uintptr_t)in.an[0], (uintptr_t)in.an[1], (uintptr_t)in.an[2]); wrote = n < 256; }
	else if (in.op == 2) { mlog_clear(); n2 = 0; tracked = false; }
	if (wrote) { newslot = (uint32_t)(n % 256); n2 = n + 1; }
	VT_ASSERT(log.head == fold(n2));		/* invariant re-established, also across the 2^31 fold */

	/* the observation */
	uint64_t avail = n2 < 256 ? n2 : 256;
	int k = in.k;
	ncalls = 0; cap_fmt = 0;
	bool expect_line;
#if OBS == 0
	{
		char *s = mlog_get_line(k);
		expect_line = k >= 0 && (uint64_t)k < avail;
		VT_ASSERT((s != 0) == expect_line);		/* every other k, including negative, yields NULL */
		VT_ASSERT(ncalls == (expect_line ? 1u : 0u));
	}
#elif OBS == 1
	{
		__CPROVER_assume(k >= 0 && k < 256);
		want_call = (unsigned)k;
		mlog_dump((FILE *)0);
		VT_ASSERT(ncalls == avail);			/* the same lines ... */
		expect_line = (uint64_t)k < avail;
	}
#else
	{
		__CPROVER_assume(k >= 0 && k < PREFIX);
		want_call = (unsigned)k;
		g_n = n; g_n2 = n2; g_wrote = wrote; g_newslot = newslot; g_k = k; g_tracked = tracked;
		mlog_dump((FILE *)0);				/* paths on which line k is printed end inside the stub */
		expect_line = (uint64_t)k < avail;
	}
#endif
#if OBS == 2
	VT_ASSERT(!expect_line);	/* reached only when the dump printed fewer than k+1 lines: then there must be fewer than k+1 messages */
#endif
	if (expect_line) {
		uint64_t msg = n2 - avail + (uint64_t)k;	/* ... oldest first: line k is message n - min(n,256) + k */
		uint32_t slot = (uint32_t)(msg % 256);
		if (wrote && slot == newslot) {
			VT_ASSERT(msg == n);
			VT_ASSERT(cap_fmt == fmts[in.fn] && cap_a[0] == (uintptr_t)in.an[0] && cap_a[1] == (uintptr_t)in.an[1] && cap_a[2] == (uintptr_t)in.an[2]);
		} else {
			VT_ASSERT(tracked);
			VT_ASSERT(cap_fmt == pool + slot && cap_a[0] == 0x1000 + slot && cap_a[1] == 0x2000 + slot && cap_a[2] == 0x3000 + slot);
		}
	}
#if OBS == 2
	VT_WITNESS(n2 == 0 && k == 0);				/* empty log: nothing printed, the path reaches the end */
#elif defined(N_HI)
	VT_WITNESS(n == N_HI && k + 1 == (int)avail);
#elif !defined(OP)
	VT_WITNESS(n == FOLD - 1 && in.op == 0 && k == 255);	/* the append that folds the counter */
	VT_WITNESS(n == 255 && in.op == 1 && k == 255);		/* mlog_nice takes the last free slot */
	VT_WITNESS(n > (1ull << 33) && in.op == 3 && k == 7 && expect_line);
#elif OP == 0
	VT_WITNESS(n == FOLD - 1 && k == 255);			/* the append that folds the counter */
#elif OP == 1
	VT_WITNESS(n == 255 && k == 255);			/* mlog_nice takes the last free slot */
#elif OP == 2
	VT_WITNESS(n > 300 && k == 0);
#else
	VT_WITNESS(n > (1ull << 33) && k == 7 && expect_line);
#endif
}

/* base case: an untouched log is the representation of n = 0 */
void h_base(void)
{
	VT_LOAD();
	VT_ASSERT(log.head == fold(0));
	VT_ASSERT(mlog_get_line(0) == 0 && mlog_get_line(-1) == 0);
	VT_WITNESS(in.k == 0);
}
