#!/usr/bin/env python3
"""Regenerates MANIFEST.json from the table below (kept valid at all times)."""
import json, os
V = os.path.dirname(os.path.dirname(os.path.abspath(__file__)))
props = [json.loads(l) for l in open(os.path.join(V, "properties.jsonl"))]
ids = [p["id"] for p in props]

CLAIMED = {
 "C16": dict(technique="bounded symbolic execution of the C source (cbmc, SAT) against loop-based reference definitions, full argument width",
             text="Each helper is executed symbolically on the real bitops.c / constexpr.h for ALL 2^32 (functions) resp. 2^64 (macros) arguments in one SAT query and compared with a bit-at-a-time reference; a width-bounded solver verdict, not a proof-assistant proof. Canary mutants must be refuted in every run.",
             note="Trusted: cbmc 6.11 + minisat/kissat, the 4 reference loops in harness/c16.c, x86-64 integer model. Compile-time evaluation is covered for goto-cc and gcc only (385 folded instances).",
             ref="C16"),
 "C17": dict(technique="IR-to-SMT encoding of rand31_r (clang IR, Int theory with explicit mod 2^32, z3 5.1) over all states; bit-precise cbmc/kissat query in the thorough tier",
             text="rand31_r's compiler IR is translated instruction by instruction to SMT-LIB and the negated Park-Miller equation is shown unsatisfiable for every state 1..2^31-2 at once; the encoding is validated in each run on concrete seeds against the natively compiled function; thorough adds the bit-precise SAT query on the C source.",
             note="Trusted: clang-14 IR as the meaning of rand.c, vt/ir2smt.py (validated per run), z3 5.1; full period rests on the cited multiplicative order of 16807.",
             ref="C17", engine="E3-ir2smt"),
 "C19": dict(technique="one inductive step of the real decoder from every state, symbolic ghost positions (cbmc, SAT) + all input histories of length 12/16 from reset",
             text="The decoder is a finite machine: one symbolic step from an arbitrary state related to ghost positions (true, latched) by the representation invariant, for every next input including bounce and two-bit jumps, plus the base case, covers histories of any length; bounded histories from reset keep the invariant honest.",
             note="Trusted: cbmc 6.11 + minisat, the ghost model in harness/c19.c (Gray-code rule, latch at state 0).",
             ref="C19"),
 "C12": dict(technique="bounded symbolic execution of pack.c (cbmc, SAT): one operation from an arbitrary cursor incl. the sticky overrun state, plus short operation sequences, against a byte-array model; cbmc dereference checks on an exactly-sized heap buffer",
             text="One real pack/unpack call from ANY cursor position (inside, at the end, up to 40 bytes past the end) of a buffer of any size 0..12 with all argument bits symbolic must agree with a byte-array model with a sticky flag; since the cursor is the only state, the single step covers call sequences of any length over such buffers; bounded sequences from rf_pack_init cross-check the step's precondition.",
             note="Trusted: cbmc 6.11 + minisat, the model in harness/c12.c. Tolerated and counted separately (not part of the property): forming/comparing the cursor past the buffer, p[3]<<24 signed shift.",
             ref="C12"),
 "C13": dict(technique="bounded symbolic execution of wavheader.c + pack.c (cbmc; kissat for the size arithmetic, minisat for the byte-level round trips), one query per declared length",
             text="init/set_num_frames are executed with format, channels (1..65535), rate, frames and the ENTIRE prior structure symbolic; validate, field relations, encode->decode identity are asserted. Decode-first: every byte string of each length 44..72 that the real decoder accepts must re-encode to itself.",
             note="Trusted: cbmc 6.11, kissat, minisat; FIELDS_EQ lists every field of rf_wavheader_t. byte_rate >= 2^31 is outside (signed overflow in the source).",
             ref="C13"),
 "C14": dict(technique="bounded symbolic execution of rf_wavheader_decode and helpers on exactly-sized heap buffers with every byte symbolic (cbmc, SAT), one query per declared length 0..72",
             text="For each declared length all 2^(8*len) byte strings are covered by one SAT query: the return-value contract, every truncation point of every accepted header, and cbmc's dereference/bounds/division checks on decode, validate, get_format and tostring.",
             note="Trusted: cbmc 6.11 + minisat; strdup_printf stubbed (arguments still evaluated by the real caller). Same tolerated pointer-arithmetic classes as C12.",
             ref="C14"),
 "C09": dict(technique="bounded symbolic execution of list.c (cbmc, SAT): one operation from every well-formed two-list state over a node pool (inductive step) + short operation sequences, against an array model",
             text="Every well-formed state of two disjoint lists over 5 (thorough 6) nodes - up to renaming of nodes - including stale tails of empty lists and iterators at any position incl. past the end is concretised into real list_t/list_node_t objects; one real operation with arbitrary arguments must leave exactly the model's sequences, return values and cleared off-list links. Because the invariant is re-established, the step covers histories of any length over that many nodes.",
             note="Trusted: cbmc 6.11 + minisat, the array model in harness/c09.c, the symmetry argument (node identity is only used through pointer equality).",
             ref="C09"),
 "C10": dict(technique="bounded symbolic execution of messageq.c (cbmc, SAT): one API call from an arbitrary valid sequential state with symbolic geometry (depth 1..32, size, slack), against a cyclic-window model",
             text="Depth, message size, slack, window position, held/claimed counts and the sent set are all symbolic at once; one real claim/send/receive/release/empty call must match the cyclic-window model and re-establish the representation invariant, so sequential histories of any length are covered for every geometry in the bound.",
             note="Trusted: cbmc 6.11 + minisat (weak CAS modelled as strong - sequential use), the window model in harness/c10.c. 1<<31 at depth 32 is tolerated signed-shift UB, counted in the evidence.",
             ref="C10"),
 "C20": dict(technique="bounded symbolic execution of mlog.c (cbmc --no-simplify, SAT): one operation + one observation from an arbitrary valid log state with ghost message count in [0,2^40)",
             text="The ghost count ranges over 2^40 values so the 2^31 fold of the internal counter is inside the single query; the 256 slots carry index-tagged contents and the new message symbolic contents, so which slot every mlog_get_line(k) returns is decided for every int k. Inductive over histories. mlog_dump is only decided for logs of up to 4 messages (thorough tier) - see DESIGN.md.",
             note="Trusted: cbmc 6.11 with the simplifier off (a simplifier bug affects exactly mlog's access pattern; reproducer in DESIGN.md), minisat, the fold rule in harness/c20.c; strdup_printf/fprintf are capture stubs.",
             ref="C20"),
 "C11": dict(technique="bounded symbolic execution of bintree.c (cbmc, SAT) over SYMBOLIC tree shapes: iterator output vs the recursive traversal, link restoration, and bintree_free with free() as deallocator so cbmc's deallocated-object check is the use-after-free oracle",
             text="Child indices are solver variables constrained to form a tree, so one query covers every shape up to the node bound (quick 3, thorough 4-5); iterator sequences must equal the recursive traversal of the same file, every link must be restored, and bintree_free/free_left/free_right on heap nodes must free children before parents exactly once without touching freed memory.",
             note="Trusted: cbmc 6.11 + minisat incl. its pointer-tagging and heap model; recursive traversals as order oracle; malloc assumed to succeed.",
             ref="C11"),
 "C15": dict(technique="bounded symbolic execution of console.c (cbmc, SAT), cut along the property's structure: tokenizer on all lines of a length, one editor step from an arbitrary editor state, command lookup/registration over arbitrary sorted tables, console_eval against a draining consumer",
             text="Each piece runs the real function (console.c included into the harness TU) from a directly constructed arbitrary valid state with all data symbolic: do_tokenize vs a reference splitter written from the statement; one input byte through console_run vs an abstract line editor incl. the 79-character limit; find_command/console_register incl. the full table; console_eval on an exactly-sized heap console_t so out-of-object writes are dereference failures. The editor step is inductive over input streams.",
             note="Trusted: cbmc 6.11 + minisat, the reference splitter and abstract editor in harness/c15_*.c, cbmc's C-locale ctype models. Whole-pipeline-from-init runs are outside (no verdict); console_process/console_putchar are covered as ringbuf_put + console_run by composition.",
             ref="C15"),
 "C08": dict(technique="grammar-driven generation of protothread programs; per program, bounded symbolic execution (cbmc, SAT) of the real PT_* macros against a direct-style twin emitted from the same AST, over every condition tape",
             text="Program text cannot be a solver variable (the macros work through __LINE__/switch), so programs are enumerated by a generator (10 fixed shapes naming each clause of the statement + seeded random ASTs); for each program the solver covers EVERY data-dependent path: the log of effects and return codes from invoking the real-macro body until exit must equal one run of the direct-style twin on the same symbolic tape.",
             note="Trusted: vt/ptgen.py's direct-style emission as the meaning of 'sequential program cut at blocking points'; cbmc 6.11 + minisat. The quantifier over programs is sampled, not exhausted - stated in the evidence.",
             ref="C08"),
 "C01": dict(technique="one-step refinement of the real scheduler against a reference model from an ARBITRARY valid kernel state (cbmc, SAT), one query per API call kind; plus bounded histories from reset",
             text="fibre.c is included into the harness so the static kernel can be given any valid contents: run queue / sleepers / pending interrupt-context requests (up to the full 8 in the thorough tier), current fibre, last result, resume tokens, stale tails. One real fibre_run / fibre_run_atomic / fibre_kill / fibre_scheduler_next (with a symbolic body script of nested API calls) must produce the model's dispatch decision, results and post-state; the invariant is re-established, so histories of any length over 3 fibres are covered.",
             note="Trusted: cbmc 6.11 + minisat; the 60-line model in harness/c01.c written from the property text; start states up to renaming of fibres. Bounds: 3 fibres, <=3 (thorough 8) pending atomic requests, <=1 nested call per dispatch.",
             ref="C01"),
 "C02": dict(technique="same one-step refinement harness with timers on: time base T0 fully symbolic (all 2^32 placements incl. both wrap windows), due offsets and pass advances symbolic; model keeps mathematical offsets, code uses 32-bit cyclic arithmetic",
             text="fibre_timeout's result, no early wake-up, first-pass-at-or-after-due wake-up, due-then-registration order and timer cancellation by run/kill are asserted through the model comparison for one call from any valid state; because T0 ranges over all 32-bit values the wrap through 0 and through 0x80000000 is covered symbolically, not sampled.",
             note="Trusted: as C01. The pass-step queries use 2 fibres in the quick tier (3 in thorough, which needs up to 2 h); offsets bounded by 2^20 (time base unrestricted).",
             ref="C02"),
 "C03": dict(technique="same harness, assertion group WAKEUP: value returned by fibre_scheduler_next vs the model, one pass from any valid state (sequential part)",
             text="For one pass from an arbitrary valid state with every kind of nested call in the body, the returned wake-up time must be t when anything is runnable or a request is undrained or the body yielded, else the earliest pending due time (cyclically after t), else t + FIBRE_UNBOUNDED_SLEEP. The interrupt-placement part is covered by C06's shim harness (return value asserted at every placement).",
             note="Trusted: as C01/C02. Interrupt placements: atomic operations of the pass only (shim <stdatomic.h>), non-nested handlers; nesting is delegated to C04 (composition, DESIGN.md).",
             ref="C03"),
 "C04": dict(technique="source-level interrupt-discipline harness: real messageq.c compiled with a shim <stdatomic.h> whose operations call a hook that may run nested sender/receiver handlers at symbolic positions (cbmc, SAT); thorough adds IR step machines (ir2c) with a symbolic schedule incl. free preemption",
             text="Every placement of up to 3 complete sender handlers, nested to depth 2, before any atomic operation of the receiver's or another sender's code, on queues of depth 1..2 that may already be full: ghost ownership (no double hand-out, claim order, contents, exactly-once), failure only when no buffer was free at some instant during the call, free count at quiescence.",
             note="Trusted: the shim's one-core SC model; cbmc 6.11 + minisat. Free preemption is only reached by the thorough tier's step-machine queries (2 senders + receiver, depth 1).",
             ref="C04", engine="E2-ir2c + shim"),
 "C05": dict(technique="clang-14 LLVM IR of the real ringbuf.c -> step machines (vt/ir2c.py, one shared-memory access per step) -> cbmc with a SYMBOLIC schedule array (kissat)",
             text="The solver chooses the interleaving of producer and consumer at the granularity of individual shared accesses, for free preemption and for either side as a run-to-completion interrupt handler, with buffer length, start index, byte values and operation counts symbolic; ghost begin/end events give the prefix/exactly-once/in-order oracle and the 'full/empty at some instant during the call' clauses; an allocation red zone decides 'no access outside buf_len bytes'.",
             note="Trusted: clang-14 IR as the meaning of ringbuf.c, vt/ir2c.py, cbmc 6.11 + kissat. Sequentially consistent interleavings only (C07 argues the rest). Quick: 2+2 operations; thorough: 3+3.",
             ref="C05", engine="E2-ir2c + shim"),
}
NA = {}

checks = []
for i in ids:
    if i in CLAIMED:
        c = CLAIMED[i]
        checks.append({
            "property_id": i,
            "quick_cmd": "./check %s --tier quick" % i,
            "thorough_cmd": "./check %s --tier thorough" % i,
            "evidence_file": "evidence/%s.json" % i,
            "replay_cmd_template": "./check %s --replay {path}" % i,
            "engine": c.get("engine", "E1-cbmc"),
            "level_claimed": {"category": c.get("category", "model_checking"), "text": c["text"], "design_ref": "DESIGN.md section 4, " + c["ref"]},
            "level_note": c["note"],
            "technique": c["technique"],
        })
na = [{"property_id": i, "reason": NA.get(i, "check not built yet in this round (breadth-first build in progress); see DESIGN.md section 7a")}
      for i in ids if i not in CLAIMED]
m = {
 "version": 1,
 "setup_cmd": "true",
 "hooks": {"guard": "LIBRFN_VERIF", "enable": "harnesses are compiled with -DLIBRFN_VERIF by goto-cc/gcc; no source hook exists (static state is reached by #include of the .c file)",
           "baseline_off_cmd": "cd /repo && make -j8 check", "source_commits": [], "add_only": True},
 "engines": [
   {"name": "E1-cbmc", "path": "vt/core.py", "serves_properties": [i for i in ids if i in CLAIMED and CLAIMED[i].get("engine", "E1-cbmc") == "E1-cbmc"],
    "kind_free_text": "goto-cc + cbmc 6.11 bounded symbolic execution of the real C translation units, harnesses in harness/, SAT back ends minisat/kissat; counterexamples replayed natively (gcc, ASan+UBSan)"},
   {"name": "E2-ir2c + shim", "path": "vt/ir2c.py", "serves_properties": ["C04", "C05", "C06", "C07", "C18"],
    "kind_free_text": "clang-14 LLVM IR of the real units -> C step machines (one shared access per step) or plain dispatch-loop functions -> cbmc with a symbolic schedule; plus harness/shim/stdatomic.h for source-level interrupt placement"},
   {"name": "E3-ir2smt", "path": "vt/ir2smt.py", "serves_properties": ["C17"],
    "kind_free_text": "clang-14 LLVM IR of a loop-free integer kernel -> SMT-LIB (Int, explicit mod 2^k, interval-guided quotient/remainder variables) -> z3 5.1"},
 ],
 "checks": checks,
 "not_applicable": na,
 "notes": "All checks: ./check <ID> [--tier quick|thorough]; exit 0 held / 1 VIOLATION (natively replayed) / 2 inconclusive. Known findings: known_findings.json.",
}
json.dump(m, open(os.path.join(V, "MANIFEST.json"), "w"), indent=1)
print("claimed", len(checks), "not claimed", len(na))
