/* C18 (dump half): hex_dump_to_file writes 16 two-digit lower-case pairs per line.
 * Real code: librfn/hex.c, #included so that its fprintf calls reach fixed-arity capture stubs
 * (cbmc passes char variadic arguments unpromoted, so a va_arg(ap,int) stub would read out of bounds). */
#include "vt.h"
#include <stdio.h>
#include <stdlib.h>
#include <ctype.h>
#ifndef NB
#define NB 40
#endif
static char out[3 * NB + 8]; static unsigned nout;
static int vt_fp4(FILE *f, const char *fmt, int a, int b) { (void)f; VT_ASSERT(fmt[0] == '%' && fmt[1] == 'c' && fmt[2] == '%' && fmt[3] == 'c' && fmt[4] == 0);
	VT_ASSERT(nout + 2 <= sizeof(out)); out[nout++] = (char)a; out[nout++] = (char)b; return 2; }
static int vt_fp2(FILE *f, const char *fmt) { (void)f; VT_ASSERT(fmt[0] == '\n' && fmt[1] == 0); VT_ASSERT(nout + 1 <= sizeof(out)); out[nout++] = '\n'; return 1; }
#define VT_PICK(_1, _2, _3, _4, NAME, ...) NAME
#define fprintf(...) VT_PICK(__VA_ARGS__, vt_fp4, vt_fp3_unused, vt_fp2, vt_fp1_unused)(__VA_ARGS__)
#include "librfn/hex.c"
#undef fprintf
struct vt_in { uint32_t n; uint8_t b[NB + 1]; };
#include "vt_in.h"

static char lc(unsigned v) { return v < 10 ? '0' + v : 'a' + (v - 10); }

void h_dump(void)
{
	VT_LOAD();
	unsigned n = NB;		/* the length is a query parameter (one query per length), the bytes are symbolic */
	unsigned char *b = VT_MALLOC(n);		/* exactly-sized: a one-byte over-read is detected */
	__CPROVER_assume(b != 0);
	for (unsigned i = 0; i < NB; i++) if (i < n) b[i] = in.b[i];
	nout = 0;
	int r = hex_dump_to_file((FILE *)0, b, n);
	VT_ASSERT(r == (int)n);
	unsigned pos = 0;
	for (unsigned i = 0; i < NB; i++) if (i < n) {
		VT_ASSERT(out[pos] == lc(in.b[i] >> 4) && out[pos + 1] == lc(in.b[i] & 15));	/* two lower-case digits, high nibble first */
		pos += 2;
		if (i % 16 == 15 || i == n - 1) { VT_ASSERT(out[pos] == '\n'); pos++; }	/* 16 pairs per line, last line terminated */
	}
	VT_ASSERT(pos == nout);							/* and nothing else */
#if NB > 0
	VT_WITNESS(in.b[NB - 1] == 0xaf);
#else
	VT_WITNESS(nout == 0);
#endif
}
