#!/bin/bash
# usage: tools/runall.sh quick|thorough [ids...]  - runs every check on the unchanged tree, one after the other, and prints a summary
tier=${1:-quick}; shift
ids=${@:-C01 C02 C03 C04 C05 C06 C07 C08 C09 C10 C11 C12 C13 C14 C15 C16 C17 C18 C19 C20}
cd /verif
for id in $ids; do
  s=$(date +%s)
  ./check $id --tier $tier > /tmp/runall-$id.log 2>&1; rc=$?
  e=$(date +%s)
  echo "$id rc=$rc $((e-s))s $(tail -1 /tmp/runall-$id.log | cut -c1-150)"
done
