"""Common machinery for the librfn solver-based checks (see DESIGN.md sections 2 and 3).

A *query* is one symbolic execution of a harness entry point over the real
/repo sources: goto-cc build -> (optional property selection) -> cbmc -> verdict.
Everything is rebuilt from the current working tree of the repository on every
invocation, in a scratch directory that is removed on exit.
"""
import atexit
import concurrent.futures as cf
import hashlib
import json
import os
import re
import shutil
import signal
import subprocess
import sys
import tempfile
import time

VERIF = os.path.dirname(os.path.dirname(os.path.abspath(__file__)))
REPO = os.environ.get("VERIF_REPO", "/repo")
HARNESS = os.path.join(VERIF, "harness")
GUARD = "LIBRFN_VERIF"

_scratch = None


def scratch():
    global _scratch
    if _scratch is None:
        base = os.environ.get("VERIF_SCRATCH") or tempfile.gettempdir()
        _scratch = tempfile.mkdtemp(prefix="vt-", dir=base)
        atexit.register(lambda: shutil.rmtree(_scratch, ignore_errors=True))
    return _scratch


def log(*a):
    print(*a, flush=True)


# --------------------------------------------------------------------------
class Query:
    """One solver query.

    role:
      prove    every property except the witness must be SUCCESS; the witness
               (VT_WITNESS) must be FAILURE (reachability / non-vacuity)
      canary   built on a scratch copy of the sources with `mutate` applied;
               at least one non-witness property must FAIL
      finding  restricted to the signature of a known finding; must still FAIL
               (prints KNOWN-FINDING), a pass is reported as "no longer reproduces"
    """

    def __init__(self, name, harness, entry, units=(), defines=None, unwind=None,
                 unwindset=None, flags=(), backend="minisat", timeout=300, mem_gb=8,
                 role="prove", mutate=None, tolerate=(), no_simplify=False,
                 witness=True, note="", finding=None, object_bits=None, cc_flags=(),
                 engine="cbmc", gen=None, sample_keys=None):
        self.name = name
        self.harness = harness
        self.entry = entry
        self.units = list(units)
        self.defines = dict(defines or {})
        self.unwind = unwind
        self.unwindset = unwindset
        self.flags = list(flags)
        self.backend = backend
        self.timeout = timeout
        self.mem_gb = mem_gb
        self.role = role
        self.mutate = mutate or []
        self.tolerate = list(tolerate)      # [(regex over "class|description|function", reason)]
        self.no_simplify = no_simplify
        self.witness = witness
        self.note = note
        self.finding = finding
        self.object_bits = object_bits
        self.cc_flags = list(cc_flags)
        self.engine = engine
        self.gen = gen                      # callable(root, workdir) -> list of extra generated .c files
        self.sample_keys = sample_keys


# --------------------------------------------------------------------------
def repo_root_for(q, workdir):
    """The source tree a query is built from: /repo itself, or a scratch copy
    with the canary mutation applied."""
    if not q.mutate:
        return REPO, None
    root = os.path.join(workdir, "mut")
    os.makedirs(root, exist_ok=True)
    for sub in ("librfn", "include"):
        dst = os.path.join(root, sub)
        if os.path.exists(dst):
            shutil.rmtree(dst)
        shutil.copytree(os.path.join(REPO, sub), dst,
                        ignore=shutil.ignore_patterns("*.o", "*.a", ".deps", ".dirstamp"))
    for rel, old, new in q.mutate:
        p = os.path.join(root, rel)
        s = open(p).read()
        if s.count(old) != 1:
            return root, "canary pattern %r matches %d times in %s" % (old, s.count(old), rel)
        open(p, "w").write(s.replace(old, new))
    return root, None


def cc_args(q, root):
    a = []
    for f in q.cc_flags:
        if f.startswith("harness/shim"):     # harness/shim (interrupt hooks) or harness/shim_hb (happens-before reporting): must precede the system <stdatomic.h>
            a += ["-I", os.path.join(HARNESS, f[len("harness/"):])]
    a += ["-I", os.path.join(root, "include"), "-I", root, "-I", HARNESS, "-I", os.path.join(VERIF, "vt"),
         "-D__NO_CTYPE", "-D" + GUARD, "-DVT_ENTRY=" + q.entry]
    for k, v in q.defines.items():
        a.append("-D%s" % k if v is None else "-D%s=%s" % (k, v))
    a += [f for f in q.cc_flags if f != "-I" and not f.startswith("harness/shim")]
    return a


def run_proc(cmd, timeout, mem_gb, cwd, env=None):
    """Run with wall-clock and address-space caps, in its own process group."""
    def pre():
        os.setsid()
        import resource
        if mem_gb:
            lim = int(mem_gb * (1 << 30))
            resource.setrlimit(resource.RLIMIT_AS, (lim, lim))
    t0 = time.time()
    timefile = tempfile.mktemp(prefix="rss-", dir=cwd)
    full = ["/usr/bin/time", "-f", "%M", "-o", timefile] + cmd
    p = subprocess.Popen(full, stdout=subprocess.PIPE, stderr=subprocess.PIPE, cwd=cwd,
                         preexec_fn=pre, env=env)
    try:
        out, err = p.communicate(timeout=timeout)
        to = False
    except subprocess.TimeoutExpired:
        try:
            os.killpg(p.pid, signal.SIGKILL)
        except ProcessLookupError:
            pass
        out, err = p.communicate()
        to = True
    rss = 0
    try:
        rss = int(open(timefile).read().split()[-1])
        os.unlink(timefile)
    except Exception:
        pass
    return {"rc": p.returncode, "out": out.decode("utf-8", "replace"), "err": err.decode("utf-8", "replace"),
            "timeout": to, "wall": time.time() - t0, "rss_kb": rss}


def build(q, workdir):
    root, mut_err = repo_root_for(q, workdir)
    if mut_err:
        return None, root, mut_err
    srcs = [os.path.join(HARNESS, q.harness)] + [os.path.join(root, u) for u in q.units]
    if q.gen:
        srcs += q.gen(root, workdir)
    binary = os.path.join(workdir, "h.goto")
    cmd = ["goto-cc", "-o", binary, "-I", workdir] + cc_args(q, root) + srcs
    r = run_proc(cmd, 300, 8, workdir)
    if r["rc"] != 0:
        return None, root, "goto-cc failed: " + (r["err"] + r["out"])[-3000:]
    return binary, root, None


def cbmc_flags(q):
    f = ["--function", q.entry, "--unwinding-assertions", "--drop-unused-functions",
         "--no-malloc-may-fail", "--json-ui", "--verbosity", "8"]
    if q.unwind is not None:
        f += ["--unwind", str(q.unwind)]
    if q.unwindset:
        f += ["--unwindset", q.unwindset]
    if q.no_simplify:
        f += ["--no-simplify"]
    if q.object_bits:
        f += ["--object-bits", str(q.object_bits)]
    if q.backend == "kissat":
        f += ["--external-sat-solver", "kissat"]
    elif q.backend == "cadical":
        f += ["--sat-solver", "cadical"]
    f += q.flags
    return f


def parse_json_ui(text):
    try:
        return json.loads(text)
    except Exception:
        # truncated output (killed): salvage nothing
        return None


def prop_key(p):
    loc = p.get("sourceLocation", {})
    return "%s|%s|%s|%s" % (p.get("class", ""), p.get("description", ""), loc.get("function", ""),
                            os.path.basename(loc.get("file", "")))


def is_witness(desc):
    return "VT_WITNESS" in (desc or "")


def _leafs(path, v, out):
    n = v.get("name")
    if n == "array":
        for e in v.get("elements", []):
            _leafs("%s[%s]" % (path, e.get("index")), e.get("value", {}), out)
    elif n == "struct":
        for m in v.get("members", []):
            if "$pad" in m.get("name", ""):
                continue
            _leafs("%s.%s" % (path, m.get("name")), m.get("value", {}), out)
    elif n == "integer":
        d = v.get("data", "")
        if d in ("TRUE", "FALSE"):
            out[path] = 1 if d == "TRUE" else 0
        else:
            b = v.get("binary")
            out[path] = int(b, 2) if b else int(re.sub(r"[uUlL]+$", "", d))
    elif n == "pointer":
        out[path] = 0


def extract_inputs(trace):
    """Assignments to the harness input struct `in` (whole-struct, sub-aggregate or leaf; last write wins)."""
    vals = {}
    for s in trace or []:
        if s.get("stepType") != "assignment":
            continue
        lhs = s.get("lhs", "")
        if lhs != "in" and not lhs.startswith("in."):
            continue
        if "$pad" in lhs:
            continue
        path = re.sub(r"\[(\d+)l?\]", r"[\1]", lhs[2:])
        tmp = {}
        _leafs(path, s.get("value", {}), tmp)
        for k, v in tmp.items():
            vals[k.lstrip(".")] = v
    return vals


def stats_from_messages(doc):
    st = {}
    for e in doc or []:
        t = e.get("messageText") if isinstance(e, dict) else None
        if not t:
            continue
        m = re.search(r"size of program expression: (\d+) steps", t)
        if m:
            st["steps"] = int(m.group(1))
        m = re.search(r"(\d+) variables, (\d+) clauses", t)
        if m:
            st["variables"] = max(st.get("variables", 0), int(m.group(1)))
            st["clauses"] = max(st.get("clauses", 0), int(m.group(2)))
        m = re.search(r"Runtime decision procedure: ([0-9.]+)s", t)
        if m:
            st["solver_s"] = st.get("solver_s", 0) + float(m.group(1))
        m = re.search(r"Runtime Symex: ([0-9.]+)s", t)
        if m:
            st["symex_s"] = float(m.group(1))
    return st


def run_query(q):
    """Returns a result dict; never raises for expected tool failures."""
    if q.engine == "custom":
        return q.runner(q)
    t0 = time.time()
    wd = tempfile.mkdtemp(prefix="q-", dir=scratch())
    res = {"name": q.name, "role": q.role, "harness": q.harness, "entry": q.entry, "backend": q.backend,
           "defines": q.defines, "unwind": q.unwind, "unwindset": q.unwindset, "note": q.note,
           "status": "error", "failed": [], "tolerated": [], "witness_reached": None, "inputs": None,
           "detail": "", "mutate": [[m[0], m[1], m[2]] for m in q.mutate], "finding": q.finding}
    try:
        binary, root, err = build(q, wd)
        res["root"] = root
        if err:
            if q.mutate and "canary pattern" in err:
                res["status"] = "skipped"
            elif q.mutate and re.search(r"static assertion failed|_Static_assert", err):
                # the mutant is rejected while the front end folds the harness' constant instances
                res["status"] = "fail"
                res["failed"] = [{"description": "static assertion failed at build time", "inputs": {}}]
            res["detail"] = err[-600:]
            return res
        env = dict(os.environ)
        env["TMPDIR"] = wd
        flags = cbmc_flags(q)
        selected = None
        if q.tolerate:
            r = run_proc(["cbmc", binary] + flags + ["--show-properties"], 300, q.mem_gb, wd, env)
            doc = parse_json_ui(r["out"])
            props = []
            for e in doc or []:
                if isinstance(e, dict) and "properties" in e:
                    props = e["properties"]
            if not props:
                res["detail"] = "show-properties produced nothing: " + (r["err"] + r["out"])[-2000:]
                return res
            selected = []
            for p in props:
                k = prop_key(p)
                tol = None
                for rx, why in q.tolerate:
                    if re.search(rx, k):
                        tol = why
                        break
                if tol:
                    res["tolerated"].append({"property": p["name"], "key": k, "reason": tol})
                else:
                    selected.append(p["name"])
            flags = flags + sum((["--property", n] for n in selected), [])
        r = run_proc(["cbmc", binary] + flags + ["--trace"], q.timeout, q.mem_gb, wd, env)
        res["wall_s"] = round(r["wall"], 2)
        res["rss_mb"] = r["rss_kb"] // 1024
        if r["timeout"]:
            res["status"] = "timeout"
            res["detail"] = "no verdict within %d s" % q.timeout
            return res
        doc = parse_json_ui(r["out"])
        if doc is None:
            res["status"] = "error"
            res["detail"] = "cbmc output unparsable (rc=%s, possibly memory cap %s GB): %s" % (
                r["rc"], q.mem_gb, (r["err"] + r["out"][-1500:])[-2000:])
            if "bad_alloc" in r["err"] or "Cannot allocate" in r["err"] or r["rc"] in (-9, -6, 134, 137):
                res["status"] = "oom"
            return res
        res.update(stats_from_messages(doc))
        results = None
        for e in doc:
            if isinstance(e, dict) and "result" in e:
                results = e["result"]
        if results is None:
            msgs = [e.get("messageText", "") for e in doc if isinstance(e, dict) and e.get("messageType") == "ERROR"]
            res["detail"] = "cbmc gave no result block: " + " / ".join(msgs)[-2000:]
            return res
        res["n_properties"] = len(results)
        n_unknown = 0
        wit_trace = None
        for p in results:
            st = p.get("status")
            desc = p.get("description", "")
            if is_witness(desc):
                # every witness of the harness must be reachable
                if st == "FAILURE":
                    if res["witness_reached"] is None:
                        res["witness_reached"] = True
                    wit_trace = wit_trace or p.get("trace")
                    res.setdefault("witnesses", []).append(desc)
                else:
                    res["witness_reached"] = False
                    res.setdefault("witnesses_missed", []).append(desc)
                continue
            if st == "FAILURE":
                loc = p.get("sourceLocation", {})
                item = {"property": p.get("property"), "description": desc,
                        "function": loc.get("function"), "file": os.path.basename(loc.get("file", "")),
                        "line": loc.get("line"), "class": p.get("property", "").split(".")[-2] if "." in p.get("property", "") else ""}
                item["inputs"] = extract_inputs(p.get("trace"))
                res["failed"].append(item)
            elif st != "SUCCESS":
                n_unknown += 1
        res["n_unknown"] = n_unknown
        if wit_trace is not None:
            res["inputs"] = extract_inputs(wit_trace)
        if res["failed"]:
            res["status"] = "fail"
        elif n_unknown:
            res["status"] = "error"
            res["detail"] = "%d properties without a definite verdict" % n_unknown
        else:
            res["status"] = "pass"
        return res
    finally:
        res["total_s"] = round(time.time() - t0, 2)
        shutil.rmtree(wd, ignore_errors=True)


# --------------------------------------------------------------------------
# native replay

def write_replay_loader(inputs, path):
    with open(path, "w") as f:
        f.write("/* generated from a solver counterexample */\n")
        f.write("static void vt_replay_load(struct vt_in *p){\n memset(p, 0, sizeof *p);\n")
        for k, v in inputs.items():
            f.write(" p->%s = (__typeof__(p->%s))0x%xULL;\n" % (k, k, v))
        f.write("}\n")


def native_replay(rep, root=None):
    """Build the harness natively (gcc, ASan+UBSan) against the real sources with
    the recorded input assignment and run it.  Returns (reproduced, text)."""
    root = root or REPO
    wd = tempfile.mkdtemp(prefix="r-", dir=scratch())
    try:
        write_replay_loader(rep["inputs"], os.path.join(wd, "vt_replay_values.h"))
        q = Query(rep["query"], rep["harness"], rep["entry"], units=rep["units"], defines=rep["defines"],
                  cc_flags=rep.get("cc_flags", []))
        srcs = [os.path.join(HARNESS, q.harness)] + [os.path.join(root, u) for u in q.units]
        if rep.get("gen"):
            from . import gens
            srcs += gens.run(rep["gen"], root, wd)
        exe = os.path.join(wd, "replay")
        cmd = ["gcc", "-std=gnu11", "-g", "-O0", "-w", "-fsanitize=address,undefined", "-fno-sanitize=shift-base", "-fno-sanitize=pointer-overflow", "-fno-sanitize-recover=all",
               "-fno-omit-frame-pointer", "-DVT_REPLAY", "-I", wd, "-o", exe] + \
              [a for a in cc_args(q, root) if a != "-D__NO_CTYPE"] + srcs
        r = run_proc(cmd, 300, 0, wd)
        if r["rc"] != 0:
            return None, "native build failed:\n" + r["err"][-3000:]
        env = dict(os.environ)
        env["ASAN_OPTIONS"] = "detect_leaks=0:abort_on_error=0:exitcode=99"
        env["UBSAN_OPTIONS"] = "print_stacktrace=1:halt_on_error=1:exitcode=98"
        r = run_proc([exe], 120, 0, wd, env)
        text = (r["out"] + r["err"])[-4000:]
        if r["timeout"]:
            return None, "native replay timed out\n" + text
        if r["rc"] == 0:
            return False, "native run completed without a failed assertion\n" + text
        if r["rc"] == 77:
            return None, "native run rejected the inputs (assumption not satisfied)\n" + text
        return True, "exit status %s\n%s" % (r["rc"], text)
    finally:
        shutil.rmtree(wd, ignore_errors=True)


def source_hash(units, root=None):
    root = root or REPO
    h = hashlib.sha256()
    for u in sorted(units):
        try:
            h.update(open(os.path.join(root, u), "rb").read())
        except OSError:
            pass
    return h.hexdigest()[:16]


# --------------------------------------------------------------------------
def run_all(queries, jobs=None):
    jobs = jobs or int(os.environ.get("VERIF_JOBS", "0")) or 14
    out = [None] * len(queries)
    with cf.ThreadPoolExecutor(max_workers=jobs) as ex:
        futs = {ex.submit(run_query, q): i for i, q in enumerate(queries)}
        for fu in cf.as_completed(futs):
            i = futs[fu]
            try:
                out[i] = fu.result()
            except Exception as e:   # pragma: no cover
                out[i] = {"name": queries[i].name, "role": queries[i].role, "status": "error",
                          "detail": "runner exception: %r" % (e,), "failed": [], "tolerated": []}
            r = out[i]
            log("  [%s] %-38s %-8s %6.1fs %5s MB %s" % (
                r.get("role", "?"), r["name"], r["status"], r.get("total_s", 0), r.get("rss_mb", "?"),
                ("vars=%s" % r["variables"]) if r.get("variables") else ""))
    return out
