/* Translator validation (differential, native): the plain-mode ir2c translation of ringbuf.c and messageq.c must behave
 * exactly like the gcc build of the same sources on long pseudo-random operation sequences (return values, the
 * structures' bytes and the storage bytes compared after every call).  Not a property check: a disagreement means
 * vt/ir2c.py is wrong and every verdict obtained through it is reported as inconclusive. */
#include <stdio.h>
#include <stdlib.h>
#include <string.h>
#include <stdint.h>
#include <stdbool.h>
#include "librfn/ringbuf.h"
#include "librfn/messageq.h"
#define VT_ACCESS(addr, size, kind, order) ((void)0)
#define VT_CAS_SPURIOUS() 0
#define VT_ASSERT_FAIL() abort()
#include "selftest_gen.c"

static uint32_t rng = 12345;
static uint32_t rnd(void) { rng = rng * 1103515245u + 12345u; return rng >> 8; }
#define CHECK(c) do { if (!(c)) { printf("MISMATCH at %s:%d: %s (step %ld)\n", __FILE__, __LINE__, #c, step); return 1; } } while (0)

int main(void)
{
	long step;
	for (int round = 0; round < 200; round++) {
		unsigned len = 2 + rnd() % 7;
		uint8_t sa[16], sb[16];
		ringbuf_t a, b;
		memset(sa, 0, sizeof sa); memset(sb, 0, sizeof sb);
		ringbuf_init(&a, sa, len); ringbuf_init_ir((char *)&b, (char *)sb, len);
		for (step = 0; step < 2000; step++) {
			unsigned op = rnd() % 3;
			if (op == 0) { uint8_t v = (uint8_t)rnd(); bool x = ringbuf_put(&a, v), y = (bool)ringbuf_put_ir((char *)&b, v); CHECK(x == y); }
			else if (op == 1) { int x = ringbuf_get(&a), y = (int)ringbuf_get_ir((char *)&b); CHECK(x == y); }
			else { bool x = ringbuf_empty(&a), y = (bool)ringbuf_empty_ir((char *)&b); CHECK(x == y); }
			CHECK(a.buf_len == b.buf_len && a.readi == b.readi && a.writei == b.writei && memcmp(sa, sb, sizeof sa) == 0);
		}
		unsigned depth = 1 + rnd() % 32, msz = 1 + rnd() % 8;
		static char qa[32 * 8 + 8], qb[32 * 8 + 8];
		messageq_t ma, mb;
		messageq_init(&ma, qa, depth * msz + rnd() % msz, msz); messageq_init_ir((char *)&mb, qb, (uint64_t)ma.queue_len * msz, msz);
		void *heldA[40]; void *heldB[40]; unsigned nheld = 0; void *clA[40]; void *clB[40]; unsigned ncl = 0;
		for (step = 0; step < 3000; step++) {
			unsigned op = rnd() % 4;
			if (op == 0) { void *x = messageq_claim(&ma); void *y = messageq_claim_ir((char *)&mb); CHECK((x == 0) == (y == 0)); if (x) { CHECK((char *)x - qa == (char *)y - qb); clA[ncl] = x; clB[ncl++] = y; } }
			else if (op == 1 && ncl) { unsigned i = rnd() % ncl; messageq_send(&ma, clA[i]); messageq_send_ir((char *)&mb, clB[i]); clA[i] = clA[ncl - 1]; clB[i] = clB[ncl - 1]; ncl--; }
			else if (op == 2) { void *x = messageq_receive(&ma); void *y = messageq_receive_ir((char *)&mb); CHECK((x == 0) == (y == 0)); if (x) { CHECK((char *)x - qa == (char *)y - qb); heldA[nheld] = x; heldB[nheld++] = y; } }
			else if (op == 3 && nheld) { messageq_release(&ma, heldA[0]); messageq_release_ir((char *)&mb, heldB[0]); memmove(heldA, heldA + 1, (nheld - 1) * sizeof(void *)); memmove(heldB, heldB + 1, (nheld - 1) * sizeof(void *)); nheld--; }
			CHECK(ma.msg_len == mb.msg_len && ma.queue_len == mb.queue_len && ma.num_free == mb.num_free && ma.sendp == mb.sendp && ma.full_flags == mb.full_flags && ma.receivep == mb.receivep);
		}
	}
	printf("ir2c differential self-test: 200 rounds x (2000 ring + 3000 queue) operations agree\n");
	return 0;
}
