from ..core import Query

U = ["librfn/messageq.c"]
TOL = [(r"arithmetic overflow on signed shl", "1 << 31 at queue depth 32: signed-shift UB at language level (value as gcc/clang compute it); reported separately, the observable behaviour at depth 32 is what is checked")]
META = {
    "level": "model_checking",
    "functions": ["messageq_init", "MESSAGEQ_VAR_INIT", "messageq_claim", "messageq_send", "messageq_receive", "messageq_release", "messageq_empty"],
    "units": ["librfn/messageq.c", "include/librfn/messageq.h"],
    "bounds": {"quick": "every geometry depth 1..32 x message size 1..16 x slack 0..size-1 (all symbolic at once); ANY valid sequential state "
                        "(window position, held, claimed, which claimed are sent); one API call, any of claim / send of any claimed unsent / receive / "
                        "release of the oldest held. Inductive: covers sequential histories of any length",
               "thorough": "as quick with message size 1..64, plus all 2-call sequences from any valid state"},
    "outside": ["message sizes above 64 (only used as a multiplier for the slot address)", "concurrent use (C04)"],
    "assumptions": ["representation invariant of a sequential queue: receivep = oldest claimed slot, sendp = receivep + claimed (mod depth), "
                    "num_free = depth - held - claimed, full_flags = sent slots within the claimed window; re-established after every step (asserted), "
                    "holds after messageq_init and for the static initialiser (asserted)", "malloc does not fail; sequential CAS never fails spuriously (cbmc models weak CAS as strong)"],
    "rule": "distinct = harness x step count.",
}


def queries(tier, kf):
    mm = 16 if tier == "quick" else 64
    qs = [Query("c10-step", "c10.c", "h_step", units=U, defines={"MAXMSG": mm, "NSTEPS": 1}, unwind=34, tolerate=TOL, timeout=900)]
    if tier == "thorough":
        qs.append(Query("c10-2steps", "c10.c", "h_step", units=U, defines={"MAXMSG": 16, "NSTEPS": 2}, unwind=34, tolerate=TOL, timeout=2400, mem_gb=12))
    cans = [("wrap", "newsendp = (sendp >= (mq->queue_len-1) ? 0 : sendp+1);", "newsendp = (sendp > (mq->queue_len-1) ? 0 : sendp+1);"),
            ("rwrap", "(receivep >= (unsigned int)(mq->queue_len - 1) ? 0 : receivep + 1);", "(receivep >= (unsigned int)(mq->queue_len) ? 0 : receivep + 1);"),
            ("undo", "\t\tatomic_fetch_add(&mq->num_free, 1);\n\t\treturn NULL;", "\t\treturn NULL;"),
            ("emptybit", "return 0 == (atomic_load(&mq->full_flags) & (1 << mq->receivep));", "return 0 == atomic_load(&mq->full_flags);")]
    for n, old, new in cans:
        rel = "include/librfn/messageq.h" if n == "emptybit" else "librfn/messageq.c"
        qs.append(Query("c10-canary-" + n, "c10.c", "h_step", units=U, defines={"MAXMSG": 16, "NSTEPS": 1}, unwind=34, tolerate=TOL, role="canary",
                        mutate=[(rel, old, new)], timeout=900))
    return qs
