from ..core import Query

U = ["librfn/rotenc.c"]
META = {
    "level": "model_checking",
    "functions": ["rotenc_decode", "rotenc_count", "rotenc_count14", "ROTENC_VAR_INIT"],
    "units": ["librfn/rotenc.c", "include/librfn/rotenc.h"],
    "bounds": {"quick": "one inductive step from EVERY decoder state: last_state x 16-bit position x latched count, ghost positions P, L in "
                        "(-2^30, 2^30), next input 0..3 incl. repeats, bounce and two-bit jumps; base case ROTENC_VAR_INIT; plus all 4^12 input "
                        "histories of length 12 from reset",
               "thorough": "as quick; histories of length 16 from reset (all 4^16)"},
    "outside": ["ghost positions beyond +-2^30 quarter steps (the decoder only keeps 16 bits; the ghost is the reference)"],
    "assumptions": ["representation invariant: internal_count = P mod 2^16, count field = (P at last detent >> 2) truncated to the field's width; "
                    "re-established by every step (asserted), holds for ROTENC_VAR_INIT (asserted)",
                    "'within one click' is asserted under the invariant that holds while no two-bit jump has occurred (VALID_ONLY harness); "
                    "after an invalid jump the statement only fixes the position arithmetic, which is asserted for all inputs"],
    "rule": "distinct = harness entry x assumption set.",
}


def queries(tier, kf):
    d = {}
    if "C19-count14" in kf:
        d["KF_C19_COUNT14"] = None
    k = 12 if tier == "quick" else 16
    qs = [
        Query("c19-step-any", "c19.c", "h_step", units=U, defines=d, unwind=2),
        Query("c19-step-valid", "c19.c", "h_step", units=U, defines=dict(d, VALID_ONLY=None), unwind=2),
        Query("c19-base", "c19.c", "h_base", units=U, unwind=2),
        Query("c19-hist", "c19.c", "h_hist", units=U, defines={"K": k}, unwind=k + 1, timeout=900),
    ]
    if "C19-count14" in kf:
        qs.append(Query("c19-kf-count14", "c19.c", "h_step", units=U, defines={"ONLY_KF_C19_COUNT14": None, "VALID_ONLY": None},
                        unwind=2, role="finding", finding="C19-count14", witness=False))
    qs += [
        Query("c19-canary-dir", "c19.c", "h_step", units=U, defines=d, unwind=2, role="canary",
              mutate=[("librfn/rotenc.c", "case FROM(1, 1) | TO(0, 1):", "case FROM(1, 1) | TO(0, 0):")]),
        Query("c19-canary-latch", "c19.c", "h_step", units=U, defines=d, unwind=2, role="canary",
              mutate=[("librfn/rotenc.c", "r->count = r->internal_count >> 2;", "r->count = r->internal_count >> 1;")]),
    ]
    return qs
