/* C15 piece 2: NSTEP characters through the real console_run from an ARBITRARY editor state.
 * The protothread is parked at its wait point by one concrete console_run on an empty ring; the command table is
 * written directly; then a symbolic line (length <= NMAX, or exactly NFIX around the 79-character limit), and NSTEP
 * symbolic input bytes (all 256 values each) go through console_run one at a time.  Oracle: an abstract line editor. */
#include "c15_common.h"
#ifndef NMAX
#define NMAX 6
#endif
#ifndef NSTEP
#define NSTEP 1
#endif
struct vt_in { uint32_t n; char line[80]; char ch[NSTEP]; };
#include "vt_in.h"

static int ran, seen_argc, yields; static char seen0[4]; static bool argv_ok;
static console_t c;
static pt_state_t cap(console_t *cc)
{
#ifdef CMD_YIELDS	/* a command that yields once before it completes: console_run must relay the yield and resume the SAME command */
	static int phase;
	if (!phase) { phase = 1; yields++; return PT_YIELDED; }
	phase = 0;
#endif
	ran++; seen_argc = cc->argc;
	seen0[0] = cc->argv[0][0]; seen0[1] = cc->argv[0][1];
	argv_ok = true;
	for (int a = 0; a < 4; a++) if (!(cc->argv[a] >= cc->scratch.buf && cc->argv[a] <= cc->scratch.buf + 79)) argv_ok = false;
	return PT_EXITED;
}
static const console_cmd_t cmd_cap = CONSOLE_CMD_VAR_INIT("a", cap);

void h_edit(void)
{
	VT_LOAD();
	console_init(&c, 0);
	cmd_table[0] = &cmd_cap; cmd_table[1] = &cmd_unknown; cmd_table[2] = 0;
	pt_state_t s0 = console_run(&c);
	VT_ASSERT(s0 == PT_WAITING && c.bufp == c.scratch.buf);
	/* arbitrary editor state: n characters typed so far, none of them one of the characters the editor consumes */
	unsigned n = in.n;
#ifdef NFIX
	__CPROVER_assume(n == NFIX);
#else
	__CPROVER_assume(n <= NMAX);
#endif
	char m[80]; unsigned mn = n;
	for (unsigned i = 0; i < 80; i++) {
		m[i] = 0;
		if (i < n) { char ch = in.line[i];
#ifdef NFIX	/* around the 79-character limit only the first 4 and last 3 characters are symbolic, the filler is 'x' */
			if (i >= 4 && i + 3 < NFIX) ch = 'x';
#endif
			__CPROVER_assume(ch != 0 && ch != '\n' && ch != '\b' && ch != 3); c.scratch.buf[i] = ch; m[i] = ch; }
	}
	c.bufp = c.scratch.buf + n;
	char *guard_lo = (char *)&c.scratch - 1, *guard_hi = (char *)&c.scratch + sizeof(c.scratch);
	char lo_before = *guard_lo;
	for (int k = 0; k < NSTEP; k++) {
		char ch = in.ch[k];
		__CPROVER_assume(ch != 0);	/* NUL is not in the property's input alphabet (it would end the C string early) */
		bool ok = ringbuf_put(&c.ring, (uint8_t)ch);
		VT_ASSERT(ok);
		ran = 0; argv_ok = true;
		pt_state_t s1 = console_run(&c);
#ifdef CMD_YIELDS
		if (s1 == PT_YIELDED) { VT_ASSERT(yields == 1 && ran == 0); s1 = console_run(&c); yields = 0; }	/* relayed upward unchanged, then resumed */
#endif
		VT_ASSERT(s1 == PT_WAITING);
		bool dispatch = ch == '\n' || mn >= 79;
		if (dispatch) {
			/* exact-name dispatch on the line AS EDITED; lines starting with white space or a quote have no agreed meaning */
			bool defined = mn == 0 || !(is_ws(m[0]) || m[0] == '\'' || m[0] == '"');
			bool names_a = mn >= 1 && m[0] == 'a' && (mn == 1 || is_ws(m[1]));
			if (defined) VT_ASSERT(ran == (names_a ? 1 : 0));	/* unknown or empty lines run no registered command */
			VT_ASSERT(ran <= 1);					/* executed at most once */
			if (ran) { VT_ASSERT(seen_argc >= 1 && seen_argc <= 4); VT_ASSERT(argv_ok); if (defined) VT_ASSERT(seen0[0] == 'a' && seen0[1] == 0); }
			mn = 0; for (unsigned i = 0; i < 80; i++) m[i] = 0;
		} else if (ch == '\b') { VT_ASSERT(ran == 0); if (mn) { mn--; m[mn] = 0; } }
		else if (ch == 3) { VT_ASSERT(ran == 0); mn = 0; for (unsigned i = 0; i < 80; i++) m[i] = 0; }
		else { VT_ASSERT(ran == 0); m[mn++] = ch; }
		/* representation: cursor inside the line buffer, contents = the edited line, the rest clear */
		VT_ASSERT(c.bufp == c.scratch.buf + mn);
		VT_ASSERT(c.bufp >= c.scratch.buf && c.bufp <= c.scratch.buf + 79);
		for (unsigned i = 0; i < 80; i++) VT_ASSERT(c.scratch.buf[i] == m[i]);
		VT_ASSERT(*guard_lo == lo_before);
	}
	(void)guard_hi;
#ifdef NFIX
	VT_WITNESS(in.ch[0] == 'x' && ran == 0);
	VT_WITNESS(in.ch[NSTEP - 1] == '\n');
#else
	VT_WITNESS(in.ch[NSTEP - 1] == '\n' && ran == 1 && n == NMAX);
	VT_WITNESS(in.ch[0] == '\b' && n == 0);
#endif
}
