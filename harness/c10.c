/* C10: message queue is a bounded FIFO of fixed buffers for every geometry.
 * Real code: librfn/messageq.c (linked), MESSAGEQ_VAR_INIT / messageq_empty (messageq.h).
 * One (or NSTEPS) API call(s) from an ARBITRARY valid sequential state with symbolic geometry. */
#include "vt.h"
#include <stdlib.h>
#include "librfn/messageq.h"
#ifndef MAXMSG
#define MAXMSG 16
#endif
#ifndef NSTEPS
#define NSTEPS 1
#endif
struct step { uint8_t op; uint8_t i; };
struct vt_in { uint32_t D, M, slack, r, h, c, sent; struct step st[NSTEPS]; };
#include "vt_in.h"

/* abstract state: a cyclic window in claim order  [held h][claimed c, some of them sent]  ending at the claim
 * index; r = slot of the oldest claimed-not-yet-received message */
struct model { uint32_t D, M, r, h, c, sent; };

static char *buf;

static void check_repr(messageq_t *q, struct model *m)
{
	VT_ASSERT(q->receivep == m->r);
	VT_ASSERT(atomic_load(&q->sendp) == (m->r + m->c) % m->D);
	VT_ASSERT((int)(signed char)atomic_load(&q->num_free) == (int)(m->D - m->h - m->c) || atomic_load(&q->num_free) == m->D - m->h - m->c);
	VT_ASSERT(atomic_load(&q->full_flags) == m->sent);
	VT_ASSERT(q->basep == buf && q->msg_len == m->M && q->queue_len == m->D);
}

static void one_step(messageq_t *q, struct model *m, const struct step *s)
{
	uint32_t D = m->D, M = m->M;
	__CPROVER_assume(s->op < 4);
	if (s->op == 0) {			/* claim */
		void *p = messageq_claim(q);
		if (m->h + m->c == D) VT_ASSERT(p == 0);	/* NULL exactly when all buffers are claimed and unreleased */
		else {
			uint32_t slot = (m->r + m->c) % D;
			VT_ASSERT(p == buf + (size_t)slot * M);		/* multiples of the message size, cyclic order */
			VT_ASSERT((char *)p + M <= buf + (size_t)D * M);	/* inside the caller's memory, trailing slack untouched */
			m->c++;
		}
	} else if (s->op == 1) {		/* send any claimed, unsent message (sends may be reordered) */
		uint32_t i = s->i;
		__CPROVER_assume(i < m->c);
		uint32_t slot = (m->r + i) % D;
		__CPROVER_assume(!(m->sent & (1u << slot)));
		messageq_send(q, buf + (size_t)slot * M);
		m->sent |= 1u << slot;
	} else if (s->op == 2) {		/* receive (with the emptiness predicate evaluated just before) */
		bool e = messageq_empty(q);
		void *p = messageq_receive(q);
		bool oldest_sent = m->c > 0 && (m->sent & (1u << m->r));
		VT_ASSERT(e == !oldest_sent);		/* empty exactly when receive would return nothing */
		if (!oldest_sent) VT_ASSERT(p == 0);	/* only once the OLDEST claimed message has been sent */
		else {
			VT_ASSERT(p == buf + (size_t)m->r * M);	/* claim order */
			m->sent &= ~(1u << m->r);
			m->r = (m->r + 1) % D; m->c--; m->h++;
		}
	} else {				/* release the oldest held message */
		__CPROVER_assume(m->h > 0);
		messageq_release(q, buf + (size_t)((m->r + D - m->h) % D) * M);
		m->h--;
	}
	check_repr(q, m);
}

void h_step(void)
{
	VT_LOAD();
	uint32_t D = in.D, M = in.M, slack = in.slack;
	__CPROVER_assume(D >= 1 && D <= 32 && M >= 1 && M <= MAXMSG && slack < M);
	size_t base_len = (size_t)D * M + slack;
	buf = VT_MALLOC(base_len);
	__CPROVER_assume(buf != 0);
	messageq_t q;
	messageq_init(&q, buf, base_len, M);
	messageq_t q2 = MESSAGEQ_VAR_INIT(buf, base_len, M);	/* the static initialiser describes the same queue */
	VT_ASSERT(q.basep == q2.basep && q.msg_len == q2.msg_len && q.queue_len == q2.queue_len &&
		  atomic_load(&q.num_free) == atomic_load(&q2.num_free) && atomic_load(&q.sendp) == atomic_load(&q2.sendp) &&
		  atomic_load(&q.full_flags) == atomic_load(&q2.full_flags) && q.receivep == q2.receivep);
	struct model m = { D, M, 0, 0, 0, 0 };
	check_repr(&q, &m);					/* a fresh queue is the representation of the empty window */
	/* arbitrary valid state */
	uint32_t r = in.r, h = in.h, c = in.c, sent = in.sent;
	__CPROVER_assume(r < D && h <= D && c <= D && h + c <= D);
	uint32_t claimed_mask = 0;
	for (uint32_t i = 0; i < 32; i++) if (i < c) claimed_mask |= 1u << ((r + i) % D);
	__CPROVER_assume((sent & ~claimed_mask) == 0);
	q.receivep = r; atomic_store(&q.sendp, (r + c) % D); atomic_store(&q.num_free, D - h - c); atomic_store(&q.full_flags, sent);
	m.r = r; m.h = h; m.c = c; m.sent = sent;
	for (int k = 0; k < NSTEPS; k++)
		one_step(&q, &m, &in.st[k]);
	VT_WITNESS(D == 32 && in.st[NSTEPS - 1].op == 2 && r == 31 && m.h > 0 && h + c == 32);	/* full, wrapping, depth 32 */
	VT_WITNESS(D == 1 && in.st[0].op == 0 && h == 0 && c == 0 && slack > 0);
	VT_WITNESS(in.st[0].op == 1 && in.st[0].i == 2 && (sent & (1u << r)) == 0);			/* out-of-order send */
}
