/* C09: the linked list behaves as a sequence under every order of operations.
 * Real code: librfn/list.c (linked) + inline helpers (list.h).
 * NSTEPS operations from an ARBITRARY well-formed state: two disjoint lists over a pool of NN nodes (stale tail
 * pointers when empty included), against an array model.  With NSTEPS == 1 this is the inductive step. */
#include "vt.h"
#include "librfn/list.h"
#include "librfn/util.h"
#ifndef NN
#define NN 4
#endif
#ifndef NSTEPS
#define NSTEPS 1
#endif
struct item { list_node_t link; int key; };
struct step { uint8_t op, which, x, pos, sub; };
struct vt_in { uint8_t len[2]; uint8_t stale[2]; int8_t key[NN]; struct step st[NSTEPS]; };
#include "vt_in.h"

static struct item nd[NN];
static list_t L[2];
struct model { uint8_t len[2]; uint8_t seq[2][NN]; };

static int cmp(list_node_t *a, list_node_t *b)
{
	return containerof(a, struct item, link)->key - containerof(b, struct item, link)->key;
}
static int idx(list_node_t *n) { for (int i = 0; i < NN; i++) if (n == &nd[i].link) return i; return -1; }
static bool on(struct model *m, int w, int x) { for (int i = 0; i < NN; i++) if (i < m->len[w] && m->seq[w][i] == x) return true; return false; }

static void concretise(struct model *m)
{
	for (int i = 0; i < NN; i++) nd[i].link.next = 0;
	for (int w = 0; w < 2; w++) {
		L[w].head = 0;
		/* the tail of an empty list is promised never to be read: leave it pointing anywhere */
		L[w].tail = in.stale[w] < NN ? &nd[in.stale[w]].link : 0;
		for (int i = 0; i < NN; i++) if (i < m->len[w]) {
			list_node_t *n = &nd[m->seq[w][i]].link;
			if (i == 0) L[w].head = n; else nd[m->seq[w][i - 1]].link.next = n;
			L[w].tail = n;
		}
	}
}

/* the real structure must be exactly the model's sequences: traversal, tail when non-empty, off-list links cleared */
static void check(struct model *m)
{
	for (int w = 0; w < 2; w++) {
		list_node_t *n = L[w].head;
		for (int i = 0; i < NN; i++) if (i < m->len[w]) {
			VT_ASSERT(n == &nd[m->seq[w][i]].link);
			if (i == m->len[w] - 1) VT_ASSERT(L[w].tail == n);
			n = n->next;
		}
		VT_ASSERT(n == 0);
		VT_ASSERT(list_empty(&L[w]) == (m->len[w] == 0));
		VT_ASSERT(list_peek(&L[w]) == (m->len[w] ? &nd[m->seq[w][0]].link : 0));
	}
	for (int x = 0; x < NN; x++) if (!on(m, 0, x) && !on(m, 1, x)) VT_ASSERT(nd[x].link.next == 0);	/* immediately reusable */
}

static void m_insert_at(struct model *m, int w, int p, int x)
{
	for (int i = NN - 1; i > 0; i--) if (i > p && i <= m->len[w]) m->seq[w][i] = m->seq[w][i - 1];
	m->seq[w][p] = x; m->len[w]++;
}
static void m_remove_at(struct model *m, int w, int p)
{
	for (int i = 0; i < NN - 1; i++) if (i >= p && i + 1 < m->len[w]) m->seq[w][i] = m->seq[w][i + 1];
	m->len[w]--;
}

enum { OP_INSERT, OP_PUSH, OP_SORTED, OP_EXTRACT, OP_REMOVE, OP_CONTAINS, OP_ITER, NOPS };
enum { IT_INSERT, IT_REMOVE, IT_NEXT, IT_CONTAINS_REMOVE, NSUB };

static void one_step(struct model *m, const struct step *s)
{
	__CPROVER_assume(s->op < NOPS && s->which < 2 && s->x < NN && s->sub < NSUB);
#ifdef FIXED_WHICH
	__CPROVER_assume(s->which == 0);	/* the two lists are interchangeable: operate on list 0, list 1 is the bystander */
#endif
	int w = s->which, x = s->x;
	list_t *l = &L[w];
	list_node_t *node = &nd[x].link;
	bool free_node = !on(m, 0, x) && !on(m, 1, x);
	int len = m->len[w];
	switch (s->op) {
	case OP_INSERT:	__CPROVER_assume(free_node);		/* scope: never insert a node that is already a member */
		list_insert(l, node); m_insert_at(m, w, len, x); break;
	case OP_PUSH:	__CPROVER_assume(free_node);
		list_push(l, node); m_insert_at(m, w, 0, x); break;
	case OP_SORTED: { __CPROVER_assume(free_node);
		for (int i = 0; i + 1 < NN; i++) if (i + 1 < len) __CPROVER_assume(nd[m->seq[w][i]].key <= nd[m->seq[w][i + 1]].key);	/* sorted list */
		list_insert_sorted(l, node, cmp);
		int p = 0; for (int i = 0; i < NN; i++) if (i < len && nd[m->seq[w][i]].key <= nd[x].key) p = i + 1;	/* after existing equal ones */
		m_insert_at(m, w, p, x); } break;
	case OP_EXTRACT: { list_node_t *r = list_extract(l);
		if (len == 0) VT_ASSERT(r == 0);
		else { VT_ASSERT(r == &nd[m->seq[w][0]].link); m_remove_at(m, w, 0); } } break;
	case OP_REMOVE: { bool r = list_remove(l, node);
		VT_ASSERT(r == on(m, w, x));
		if (r) { int p = 0; for (int i = 0; i < NN; i++) if (i < len && m->seq[w][i] == x) p = i; m_remove_at(m, w, p); } } break;
	case OP_CONTAINS: VT_ASSERT(list_contains(l, node, 0) == on(m, w, x)); break;
	case OP_ITER: {
		int pos = s->pos;
		__CPROVER_assume(pos <= len);			/* anywhere, including past the end */
		list_iterator_t it;
		list_node_t *r = list_iterate(l, &it);
		VT_ASSERT(r == (len ? &nd[m->seq[w][0]].link : 0));
		for (int i = 0; i < NN; i++) if (i < pos) {
			r = list_iterator_next(&it);
			VT_ASSERT(r == (i + 1 < len ? &nd[m->seq[w][i + 1]].link : 0));
		}
		if (s->sub == IT_INSERT) { __CPROVER_assume(free_node);
			list_iterator_insert(&it, node); m_insert_at(m, w, pos, x);
			VT_ASSERT(*it.prevnext == node);	/* the iterator now rests on the new node */
		} else if (s->sub == IT_REMOVE) { __CPROVER_assume(pos < len);
			r = list_iterator_remove(&it); m_remove_at(m, w, pos);
			VT_ASSERT(r == (pos < m->len[w] ? &nd[m->seq[w][pos]].link : 0));	/* the node after the removed one */
			/* keep going: the iterator is still usable */
			list_node_t *r2 = list_iterator_next(&it);
			VT_ASSERT(r2 == (pos + 1 < m->len[w] ? &nd[m->seq[w][pos + 1]].link : 0));
		} else if (s->sub == IT_NEXT) {
			r = list_iterator_next(&it);		/* one more, possibly past the end (stays there) */
			VT_ASSERT(r == (pos + 1 < len ? &nd[m->seq[w][pos + 1]].link : 0));
			r = list_iterator_next(&it);
			VT_ASSERT(r == (pos + 2 < len ? &nd[m->seq[w][pos + 2]].link : 0));
		} else {					/* contains with the caller's iterator, then remove through it */
			list_iterator_t it2;
			bool f = list_contains(l, node, &it2);
			VT_ASSERT(f == on(m, w, x));
			VT_ASSERT(it2.list == l);		/* the caller's iterator is always positioned on this list ... */
			if (!f) VT_ASSERT(it2.prevnext == (len ? &nd[m->seq[w][len - 1]].link.next : &l->head) && *it2.prevnext == 0);	/* ... past the end when the node is not found */
			if (f) { int p = 0; for (int i = 0; i < NN; i++) if (i < len && m->seq[w][i] == x) p = i;
				 r = list_iterator_remove(&it2); m_remove_at(m, w, p);
				 VT_ASSERT(r == (p < m->len[w] ? &nd[m->seq[w][p]].link : 0)); }
		}
		} break;
	}
	check(m);
}

void h_steps(void)
{
	VT_LOAD();
	struct model m;
	/* Start state, up to renaming of pool nodes (the code never looks at node identity other than by pointer
	 * equality): list 0 = nodes 0,1,..,len0-1 in that order, list 1 = nodes NN-1, NN-2, .. downwards, the rest off-list.
	 * Every well-formed pair of disjoint lists over NN nodes is isomorphic to exactly one such state. */
	m.len[0] = in.len[0]; m.len[1] = in.len[1];
	__CPROVER_assume(m.len[0] + m.len[1] <= NN);
#ifdef FROM_EMPTY
	__CPROVER_assume(m.len[0] == 0 && m.len[1] == 0);
#endif
	for (int i = 0; i < NN; i++) { m.seq[0][i] = i; m.seq[1][i] = NN - 1 - i; }
	for (int i = 0; i < NN; i++) { __CPROVER_assume(in.key[i] >= -3 && in.key[i] <= 3); nd[i].key = in.key[i]; }
	concretise(&m);
	check(&m);
	for (int k = 0; k < NSTEPS; k++) one_step(&m, &in.st[k]);
	VT_WITNESS(in.st[0].op == OP_ITER && in.st[0].sub == IT_REMOVE && in.len[in.st[0].which] == 1);	/* remove the only element through an iterator */
	VT_WITNESS(in.st[NSTEPS - 1].op == OP_SORTED && m.len[0] == NN && in.key[0] == in.key[1]);		/* sorted insert among equal keys, pool exhausted */
	VT_WITNESS(in.st[0].op == OP_INSERT && in.len[in.st[0].which] == 0 && in.stale[in.st[0].which] < NN);	/* tail insert into an empty list with a stale tail */
}
