/* C01 / C02 / C03 (sequential part): the fibre scheduler against a reference model.
 * Real code: librfn/fibre.c is #included (to reach the static `kernel`), list.c, messageq.c, util.c linked.
 *
 * h_hist: K API calls from the static initial state, reference model in lock step (bounded histories from reset).
 * h_step: ONE API call from an ARBITRARY valid scheduler state (one-step refinement; see below).
 *
 * Fibre bodies are harness functions that perform a symbolic script of nested API calls and return a symbolic code.
 * Assertion groups: ORDER (C01: who is dispatched when, queues, fibre_self, kill/run_atomic results, restart token),
 * TIMERS (C02: fibre_timeout result, due order, wrap), WAKEUP (C03: value returned by fibre_scheduler_next). */
#include "vt.h"
#include "librfn/fibre.c"

#ifndef NF
#define NF 3
#endif
#ifndef K
#define K 4
#endif
#ifndef NSCRIPT
#define NSCRIPT 1
#endif
#define QCAP 8
#ifndef MAXAQ
#define MAXAQ 2
#endif

enum { OP_RUN, OP_RUN_ATOMIC, OP_KILL, OP_NEXT, NOPS };
enum { S_NONE, S_RUN, S_RUN_ATOMIC, S_KILL, S_TIMEOUT, NSOPS };
struct script { uint8_t n; uint8_t op[NSCRIPT]; uint8_t g[NSCRIPT]; int32_t off[NSCRIPT]; uint8_t ret; };
struct call { uint8_t op; uint8_t f; uint32_t dt; struct script body; };
struct vt_in {
	uint32_t T0;
	struct call c[K];
	/* h_step only: the abstract pre-state */
	uint8_t nrun, ntq, naq, cur, state, recvp;
	uint8_t runq[NF], tq[NF], aq[QCAP];
	int32_t due[NF];
	uint16_t priv[NF];
	uint8_t stale_run, stale_tq;
};
#include "vt_in.h"

/* ---------------- reference model (written from the property text) ---------------- */
struct model {
	int runq[NF + 1], nrun;		/* FIFO run queue: fibre ids */
	int tq[NF + 1], ntq;		/* sleepers in due order (registration order among equals) */
	int aq[QCAP], naq;		/* accepted, undrained interrupt-context run requests, in arrival order */
	int cur;			/* fibre dispatched by the latest pass, -1 = none */
	int state;			/* what it returned */
	int64_t now;			/* time of the latest pass, as an offset from T0 (mathematical integer) */
	int64_t due[NF];
	unsigned priv[NF];		/* resume token */
};
static struct model m;

static bool m_in(const int *q, int n, int f) { for (int i = 0; i < NF + 1; i++) if (i < n && q[i] == f) return true; return false; }
static void m_del(int *q, int *n, int f)
{
	int j = 0;
	for (int i = 0; i < NF + 1; i++) if (i < *n && q[i] != f) q[j++] = q[i];
	*n = j;
}
static void m_run_core(int f)
{
	if (!m_in(m.runq, m.nrun, f)) {		/* already queued: the reasons coalesce */
		m_del(m.tq, &m.ntq, f);		/* made runnable by other means: the pending timeout is cancelled */
		m.runq[m.nrun++] = f;
	}
}
static void m_drain(void)
{
#ifdef KF_C01_ATOMIC_REVERSED	/* known finding: several pending requests are queued in reverse arrival order */
	for (int i = QCAP - 1; i >= 0; i--) if (i < m.naq) m_run_core(m.aq[i]);
#else
	for (int i = 0; i < QCAP; i++) if (i < m.naq) m_run_core(m.aq[i]);	/* in their order of arrival */
#endif
	m.naq = 0;
}
static void m_run(int f) { m_drain(); m_run_core(f); }
static bool m_run_atomic(int f) { if (m.naq >= QCAP) return false; m.aq[m.naq++] = f; return true; }
static bool m_kill(int f)
{
	m_drain();
	bool r = m_in(m.runq, m.nrun, f) || m_in(m.tq, m.ntq, f);
	m_del(m.runq, &m.nrun, f); m_del(m.tq, &m.ntq, f);
	return r;
}
static bool m_timeout(int64_t d)
{
	if (d <= m.now) return true;			/* not after the time of the current pass */
	m.due[m.cur] = d;
	if (!m_in(m.runq, m.nrun, m.cur)) {		/* sorted by due time, after existing equal ones */
		int p = 0;
		for (int i = 0; i < NF; i++) if (i < m.ntq && m.due[m.tq[i]] <= d) p = i + 1;
		for (int i = NF; i > 0; i--) if (i > p && i <= m.ntq) m.tq[i] = m.tq[i - 1];
		m.tq[p] = m.cur; m.ntq++;
	}
	return false;
}

/* ---------------- real side: fibres and their bodies ---------------- */
static fibre_t fib[NF];
static const struct script *cur_script;
static int d_id, d_priv, d_self_ok, d_res[NSCRIPT];	/* what the dispatched body observed */
static int id_of(fibre_t *f) { for (int i = 0; i < NF; i++) if (f == &fib[i]) return i; return -1; }

/* the kind of the nested call may be fixed per query (SCRIPT_OP) so that cbmc does not expand every kind at every site */
#ifdef SCRIPT_OP
#define SOP(s, i) SCRIPT_OP
#else
#define SOP(s, i) ((s)->op[i])
#endif

static int body(fibre_t *f)
{
	const struct script *s = cur_script;
	d_id = id_of(f);
	d_priv = f->priv;
	d_self_ok = fibre_self() == f;
	for (int i = 0; i < NSCRIPT; i++) if (i < s->n) {
		fibre_t *g = &fib[s->g[i]];
		switch (SOP(s, i)) {
		case S_RUN: fibre_run(g); d_res[i] = 0; break;
		case S_RUN_ATOMIC: d_res[i] = fibre_run_atomic(g); break;
		case S_KILL: d_res[i] = fibre_kill(g); break;
		case S_TIMEOUT: d_res[i] = fibre_timeout(kernel.now + (uint32_t)s->off[i]); break;
		default: d_res[i] = 0; break;
		}
	}
	if (s->ret == FIBRE_STATE_YIELDED || s->ret == FIBRE_STATE_WAITING) f->priv = 7;	/* a resume point, as PT_YIELD / PT_WAIT would store */
	return s->ret;
}

static void constrain_script(const struct script *s)
{
	__CPROVER_assume(s->n <= NSCRIPT && s->ret <= FIBRE_STATE_FAILED);
	int unsat = 0;
	for (int i = 0; i < NSCRIPT; i++) {
		__CPROVER_assume(s->op[i] < NSOPS && s->g[i] < NF);
#ifdef SCRIPT_OP
		__CPROVER_assume(s->op[i] == SCRIPT_OP);
#endif
#ifndef TIMERS
		__CPROVER_assume(s->op[i] != S_TIMEOUT);
#endif
		__CPROVER_assume(s->off[i] > -(1 << 20) && s->off[i] < (1 << 20));
		if (i < s->n && SOP(s, i) == S_TIMEOUT && s->off[i] > 0) unsat++;
	}
	__CPROVER_assume(unsat <= 1);		/* scope: at most one unsatisfied fibre_timeout per dispatch */
}

/* ---------------- comparing the real scheduler state with the model ---------------- */
static void check_queues(void)
{
#ifdef ORDER
	list_node_t *n = kernel.runq.head;
	for (int i = 0; i < NF + 1; i++) if (i < m.nrun) { VT_ASSERT(n == &fib[m.runq[i]].link); if (i == m.nrun - 1) VT_ASSERT(kernel.runq.tail == n); n = n->next; }
	VT_ASSERT(n == 0);
	n = kernel.timerq.head;
	for (int i = 0; i < NF + 1; i++) if (i < m.ntq) { VT_ASSERT(n == &fib[m.tq[i]].link); if (i == m.ntq - 1) VT_ASSERT(kernel.timerq.tail == n); n = n->next; }
	VT_ASSERT(n == 0);
	for (int f = 0; f < NF; f++) if (!m_in(m.runq, m.nrun, f) && !m_in(m.tq, m.ntq, f)) VT_ASSERT(fib[f].link.next == 0);
	VT_ASSERT(fibre_self() == (m.cur < 0 ? 0 : &fib[m.cur]));	/* names the fibre dispatched by the latest pass, or nothing */
	/* pending interrupt-context requests: same number, same order (read off the queue without consuming it) */
	unsigned r = kernel.atomic_runq.receivep;
	for (int i = 0; i < QCAP; i++) if (i < m.naq) { VT_ASSERT(atomic_load(&kernel.atomic_runq.full_flags) & (1u << r)); VT_ASSERT(atomic_runq_buf[r] == &fib[m.aq[i]]); r = (r + 1) % QCAP; }
	VT_ASSERT(messageq_empty(&kernel.atomic_runq) == (m.naq == 0));
#endif
#ifdef TIMERS
	for (int i = 0; i < NF; i++) if (i < m.ntq) VT_ASSERT(fib[m.tq[i]].duetime == (uint32_t)(in.T0 + (uint32_t)m.due[m.tq[i]]));
#endif
}

/* one API call on both sides */
static void do_call_op(const struct call *c, int op)
{
	__CPROVER_assume(c->f < NF);
	fibre_t *f = &fib[c->f];
	switch (op) {
	case OP_RUN: fibre_run(f); m_run(c->f); break;
	case OP_RUN_ATOMIC: { bool r = fibre_run_atomic(f); bool e = m_run_atomic(c->f);
#ifdef ORDER
		VT_ASSERT(r == e);
#endif
		(void)r; (void)e; } break;
	case OP_KILL: { bool r = fibre_kill(f); bool e = m_kill(c->f);
#ifdef ORDER
		VT_ASSERT(r == e);	/* whether there was anything to withdraw */
#endif
		(void)r; (void)e; } break;
	case OP_NEXT: {
		__CPROVER_assume(c->dt < (1u << 20));
		constrain_script(&c->body);
		cur_script = &c->body;
		d_id = -1;
		m.now += c->dt;
		uint32_t t = in.T0 + (uint32_t)m.now;
		uint32_t wake = fibre_scheduler_next(t);
		/* the model's pass */
		bool fast = m.state == FIBRE_STATE_YIELDED && m.nrun == 0 && m.ntq == 0 && m.naq == 0;
		if (!fast) {
			m_drain();							/* accepted interrupt-context requests, in arrival order */
			if (m.cur >= 0) {
				if (m.state == FIBRE_STATE_YIELDED) m_run(m.cur);	/* then the fibre that yielded in the previous pass */
				else if (m.state == FIBRE_STATE_EXITED || m.state == FIBRE_STATE_FAILED) m.priv[m.cur] = 0;	/* restarts from its beginning */
			}
			while (m.ntq > 0 && m.due[m.tq[0]] <= m.now) {			/* then the expired sleepers, in due order */
				int e = m.tq[0];
				m_del(m.tq, &m.ntq, e);
				m.runq[m.nrun++] = e;
			}
			if (m.nrun > 0) { m.cur = m.runq[0]; m_del(m.runq, &m.nrun, m.cur); } else m.cur = -1;
		}
		int e_id = m.cur;
		if (m.cur >= 0) {
			int e_priv = m.priv[m.cur];
#ifdef ORDER
			VT_ASSERT(d_id == e_id);					/* exactly the head of the run queue is dispatched */
			VT_ASSERT(d_priv == e_priv);					/* resumes where it blocked / restarts after exit or failure */
			VT_ASSERT(d_self_ok);
#endif
			const struct script *s = &c->body;
			for (int i = 0; i < NSCRIPT; i++) if (i < s->n) {
				int e = 0;
				switch (SOP(s, i)) {
				case S_RUN: m_run(s->g[i]); break;
				case S_RUN_ATOMIC: e = m_run_atomic(s->g[i]); break;
				case S_KILL: e = m_kill(s->g[i]); break;
				case S_TIMEOUT: e = m_timeout(m.now + s->off[i]); break;
				}
#ifdef ORDER
				if (SOP(s, i) != S_TIMEOUT) VT_ASSERT(d_res[i] == e);
#endif
#ifdef TIMERS
				if (SOP(s, i) == S_TIMEOUT) VT_ASSERT(d_res[i] == e);	/* true exactly when d is not after the time of this pass */
#endif
				(void)e;
			}
			m.state = s->ret;
			if (s->ret == FIBRE_STATE_YIELDED || s->ret == FIBRE_STATE_WAITING) m.priv[m.cur] = 7;
		} else {
#ifdef ORDER
			VT_ASSERT(d_id == -1);						/* at most one fibre, none if nothing is runnable */
#endif
		}
#ifdef WAKEUP
		{	/* C03: never oversleeps */
			int64_t e;
			if (m.cur >= 0 && m.state == FIBRE_STATE_YIELDED) e = m.now;
			else if (m.naq > 0 || m.nrun > 0) e = m.now;
			else if (m.ntq == 0) e = m.now + 0x7fffffff;
			else e = m.due[m.tq[0]];
			VT_ASSERT(wake == (uint32_t)(in.T0 + (uint32_t)e));
			if (m.naq == 0 && m.nrun == 0 && m.ntq > 0 && !(m.cur >= 0 && m.state == FIBRE_STATE_YIELDED))
				VT_ASSERT((int32_t)(wake - t) > 0);			/* the earliest pending due time is cyclically after t */
		}
#endif
		(void)wake; (void)e_id;
		} break;
	}
	check_queues();
}

static void do_call(const struct call *c)
{
	__CPROVER_assume(c->op < NOPS);
	do_call_op(c, c->op);
}

void h_hist(void)
{
	VT_LOAD();
	for (int i = 0; i < NF; i++) fibre_init(&fib[i], body);
	m.cur = -1; m.state = FIBRE_STATE_YIELDED;	/* the static initial state is the representation of the empty model */
	check_queues();
#ifdef SCEN_ATOMIC_THEN_NEXT	/* scenario with the call kinds fixed: K-1 interrupt-context requests for arbitrary fibres, then one pass */
	for (int k = 0; k < K; k++) __CPROVER_assume(in.c[k].op == (k == K - 1 ? OP_NEXT : OP_RUN_ATOMIC) && in.c[k].body.n == 0);
#endif
	for (int k = 0; k < K; k++) do_call(&in.c[k]);
#ifdef SCEN_ATOMIC_THEN_NEXT
	VT_WITNESS(d_id == 1 && m.nrun == 1);
#else
	VT_WITNESS(in.c[K - 1].op == OP_NEXT && d_id == 2 && m.nrun == 1);
#endif
#ifdef TIMERS
	VT_WITNESS(m.ntq >= 1 && in.T0 > 0xfffffff0u);	/* a sleeper pending across the 0xffffffff -> 0 wrap */
#elif !defined(SCEN_ATOMIC_THEN_NEXT)
	VT_WITNESS(m.naq == 2);
#endif
}

/* the drain on its own: N interrupt-context requests for distinct fibres, then fibre_run of another one (which drains first);
 * the run queue must hold them in their order of arrival, followed by the fibre named by fibre_run */
void h_drain(void)
{
	VT_LOAD();
	for (int i = 0; i < NF; i++) fibre_init(&fib[i], body);
	unsigned a = in.c[0].f, b = in.c[1].f, c = in.c[2].f;
	__CPROVER_assume(a < NF && b < NF && c < NF && a != b && a != c && b != c);
	bool ra = fibre_run_atomic(&fib[a]);
	bool rb = fibre_run_atomic(&fib[b]);
	VT_ASSERT(ra && rb);
	fibre_run(&fib[c]);
	VT_ASSERT(kernel.runq.head == &fib[a].link);
	VT_ASSERT(kernel.runq.head->next == &fib[b].link);
	VT_ASSERT(kernel.runq.head->next->next == &fib[c].link && kernel.runq.tail == &fib[c].link);
	VT_WITNESS(a == 2 && b == 0);
}

/* ---------------- one-step refinement from an ARBITRARY valid scheduler state ----------------
 * The abstract pre-state is symbolic and is written directly into the real kernel structure.  Up to renaming of
 * fibres (the scheduler uses fibre identity only through pointer equality) the run queue holds fibres 0,1,.. in that
 * order and the timer queue fibres NF-1, NF-2, .. downwards; which fibre is current, which fibres the pending
 * interrupt-context requests name, the ring position of the request queue, due times, resume tokens and the stale
 * tails of empty lists are arbitrary.  One API call (kind = STEP_OP, arguments and body script symbolic) must
 * agree with the model and leave the real state equal to the model's post-state; so the step covers histories of
 * any length over NF fibres. */
#ifndef STEP_OP
#define STEP_OP OP_NEXT
#endif
void h_step(void)
{
	VT_LOAD();
	for (int i = 0; i < NF; i++) fibre_init(&fib[i], body);
	int nrun = in.nrun, ntq = in.ntq, naq = in.naq;
	__CPROVER_assume(nrun + ntq <= NF && naq <= MAXAQ);
	__CPROVER_assume(in.cur <= NF && in.state <= FIBRE_STATE_FAILED && in.recvp < QCAP);
	m.nrun = nrun; m.ntq = ntq; m.naq = naq; m.now = 0;
	m.cur = in.cur == NF ? -1 : in.cur; m.state = in.state;
	for (int i = 0; i < NF; i++) { m.runq[i] = i; m.tq[i] = NF - 1 - i; m.priv[i] = in.priv[i]; fib[i].priv = in.priv[i]; m.due[i] = 0; }
	/* sleepers: pending due times are after the time of the latest pass, in due order */
	for (int i = 0; i < NF; i++) if (i < ntq) {
		int f = m.tq[i];
#ifdef TIMERS
		__CPROVER_assume(in.due[f] > 0 && in.due[f] < (1 << 20));
		if (i > 0) __CPROVER_assume(in.due[m.tq[i - 1]] <= in.due[f]);
		m.due[f] = in.due[f];
#else
		__CPROVER_assume(0);	/* without TIMERS the timer queue is empty */
#endif
		fib[f].duetime = in.T0 + (uint32_t)m.due[f];
	}
	/* concretise */
	kernel.now = in.T0;
	kernel.current = m.cur < 0 ? 0 : &fib[m.cur];
	kernel.state = m.state;
	kernel.runq.head = 0; kernel.runq.tail = in.stale_run < NF ? &fib[in.stale_run].link : 0;
	kernel.timerq.head = 0; kernel.timerq.tail = in.stale_tq < NF ? &fib[in.stale_tq].link : 0;
	for (int i = 0; i < NF; i++) if (i < nrun) { if (i == 0) kernel.runq.head = &fib[i].link; else fib[i - 1].link.next = &fib[i].link; kernel.runq.tail = &fib[i].link; }
	for (int i = 0; i < NF; i++) if (i < ntq) { int f = NF - 1 - i; if (i == 0) kernel.timerq.head = &fib[f].link; else fib[f + 1].link.next = &fib[f].link; kernel.timerq.tail = &fib[f].link; }
	unsigned flags = 0, r = in.recvp;
	for (int i = 0; i < QCAP; i++) if (i < naq) { __CPROVER_assume(in.aq[i] < NF); m.aq[i] = in.aq[i]; atomic_runq_buf[r] = &fib[in.aq[i]]; flags |= 1u << r; r = (r + 1) % QCAP; }
	kernel.atomic_runq.receivep = in.recvp;
	atomic_store(&kernel.atomic_runq.sendp, r);
	atomic_store(&kernel.atomic_runq.num_free, QCAP - naq);
	atomic_store(&kernel.atomic_runq.full_flags, flags);
	check_queues();				/* the concretisation is the representation of the model state */
	do_call_op(&in.c[0], STEP_OP);	/* the call kind is a query parameter (one query per kind, in parallel) */
	VT_WITNESS(nrun + ntq == NF && naq == MAXAQ && m.cur >= 0);
#if STEP_OP == 3
	VT_WITNESS(d_id == 1 && in.c[0].body.n == NSCRIPT && in.c[0].body.ret == FIBRE_STATE_YIELDED);
#endif
}
