from ..core import Query

U = ["librfn/wavheader.c", "librfn/pack.c"]
TOL = [
    (r"pointer outside object bounds.*\|(rf_pack_|rf_unpack_)", "pack.c forms its cursor past the buffer by design (overflow state, see C12)"),
    (r"arithmetic overflow on signed - in pack->(endp|p) - pack->(p|basep)", "pointer difference while the cursor is past the buffer (see C12)"),
    (r"pointer relation", "comparison of the overrunning cursor with endp (see C12)"),
    (r"arithmetic overflow on signed shl", "p[3] << 24 (see C12)"),
    (r"pointer arithmetic", "cursor arithmetic past the buffer (see C12)"),
]
META = {
    "level": "model_checking",
    "functions": ["rf_wavheader_decode", "rf_wavheader_validate", "rf_wavheader_get_format", "rf_wavheader_tostring", "format_tostring",
                  "rf_pack_init", "rf_pack_remaining", "rf_unpack_bytes", "rf_unpack_u16le", "rf_unpack_u32le"],
    "units": ["librfn/wavheader.c", "librfn/pack.c"],
    "bounds": {"quick": "every byte string of every declared length 0..72 (exact-size heap object, all bytes symbolic at once, so every 32-bit "
                        "size field takes all 2^32 values); every truncation point of every accepted header; helpers on every decoder output and "
                        "on structures with arbitrary contents",
               "thorough": "as quick with declared lengths 0..96"},
    "outside": ["inputs longer than 96 bytes (the decoder reads at most 12+8+2^32 bytes but every field it interprets lies in the first 76)",
                "declared lengths above INT_MAX (return type is int)"],
    "assumptions": ["strdup_printf is a stub; its arguments, including the division, are evaluated by the real caller", "malloc does not fail (harness)"],
    "rule": "distinct = harness entry.",
}


def queries(tier, kf):
    mb = 72 if tier == "quick" else 96
    d = {"MAXB": mb}
    uw = mb + 10
    qs = []
    for sz in range(0, mb + 1):
        dd = {"MAXB": mb, "SZ": sz}
        qs.append(Query("c14-decode-len%d" % sz, "c14.c", "h_decode", units=U, defines=dd, unwind=uw, tolerate=TOL, timeout=600, mem_gb=4))
    for sz in (0, 43, 44, 58, mb):
        dd = {"MAXB": mb, "SZ": sz}
        qs.append(Query("c14-helpers-len%d" % sz, "c14.c", "h_helpers", units=U, defines=dd, unwind=uw, tolerate=TOL, timeout=600, mem_gb=4))
    qs.append(Query("c14-helpers-any", "c14.c", "h_helpers_any", units=U, defines=d, unwind=uw, tolerate=TOL, timeout=600))
    cans = [("datasize", "\twh->data_chunk_size = rf_unpack_u32le(&pack);\n\n\t/* do some basic", "\twh->data_chunk_size = rf_unpack_u16le(&pack);\n\n\t/* do some basic", "", "h_decode", 44),
            ("fmtbound", "if (wh->fmt_chunk_size > INT_MAX / 2)", "if (wh->fmt_chunk_size > UINT_MAX - 2)", "c14-decode-len30", "h_decode", 30),
            ("divguard", "wh->block_align ? wh->data_chunk_size / wh->block_align : 0", "wh->data_chunk_size / wh->block_align", "c14-helpers", "h_helpers", 44)]
    for n, old, new, _, entry, sz in cans:
        qs.append(Query("c14-canary-" + n, "c14.c", entry, units=U, defines={"MAXB": mb, "SZ": sz}, unwind=uw, tolerate=TOL, role="canary",
                        mutate=[("librfn/wavheader.c", old, new)], timeout=600, mem_gb=4))
    return qs
