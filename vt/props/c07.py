from .c05 import q as ring_q
from ..core import Query

META = {
    "level": "model_checking",
    "functions": ["ringbuf_put", "ringbuf_get", "ringbuf_empty (ring buffer pattern only - see outside_the_bounds for the message-queue and fibre patterns)"],
    "units": ["librfn/ringbuf.c via clang-14 LLVM IR at -O1 and -O2 (the memory order and atomicity of every access are read off the IR instruction)"],
    "bounds": {"quick": "the C05 executions (1 put + 1 get, length 2..3, every start index and byte value, free preemption) at -O1 with the vector-clock happens-before monitor on every shared access",
               "thorough": "additionally 1 + 2 and 2 + 1 operations and the -O2 IR"},
    "outside": ["THE MESSAGE-QUEUE PATTERN AND THE FIBRE WAKE-UP / EVENT PATTERN (both run on messageq.c) ARE NOT DECIDED BY ANY REGISTERED QUERY: the monitor over the C04 step "
                "machines gave no verdict within reach (1 sender + receiver, depth 1, whole handlers in every order: > 12 min and 7.5 GB without a verdict; 2 senders or 2 messages: "
                "out of memory at 10-12 GB). A weakened memory order in messageq.c (seed C07b: relaxed fetch_or in messageq_send) is therefore NOT reported by this check",
                "executions that are not sequentially consistent: on the current tree every atomic is seq_cst, so race-freedom of all SC interleavings gives (C11 DRF-SC) that all "
                "executions of the bounded scenarios are SC and race-free; after a weakening mutation the check is a bug-finder over SC interleavings with happens-before from the actual orders",
                "long randomised real-thread runs under ThreadSanitizer (dynamic sampling - not part of this technique family, not done)",
                "the -O0 IR (no inlining at -O0, so the agents are not call-free)", "thread fences (none in the sources; compiler-only fences are ignored as they must be)"],
    "assumptions": ["clang-14 IR as the meaning of the sources; vt/vt_monitor.h implements release sequences / acquire joins as described in its header",
                    "bufp, buf_len (and basep, msg_len, queue_len) are written only before the concurrent phase; a store to them in agent code stops the translation"],
    "rule": "distinct = optimisation level x scenario.",
}


def queries(tier, kf):
    M = {"VT_MONITOR": None}
    M1 = {"VT_MONITOR": None, "NO_FAIL_WITNESS": None}
    from .. import gens
    qs = [gens.selftest_query("c07-ir2c-selftest"), ring_q("c07-ring-O1-1x1", 0, 1, 1, 3, extra=M1, timeout=7200, unwind=9)]
    if tier == "thorough":
        qs += [ring_q("c07-ring-O1-1x2", 0, 1, 2, 3, extra=M1, timeout=14400, unwind=9), ring_q("c07-ring-O1-2x1", 0, 2, 1, 3, extra=M, timeout=14400, unwind=9),
               ring_q("c07-ring-O2-1x1", 0, 1, 1, 3, extra=M1, opt="-O2", timeout=7200, unwind=9)]
    cans = [("relaxed-publish", "\tatomic_store(&rb->writei, writei);\n\treturn true;", "\tatomic_store_explicit(&rb->writei, writei, memory_order_relaxed);\n\treturn true;")]
    for n, old, new in cans:
        qs.append(ring_q("c07-canary-" + n, 0, 1, 1, 3, extra=M1, role="canary", mutate=[("librfn/ringbuf.c", old, new)], timeout=7200, unwind=9))
    return qs
