/* C04: message queue - many concurrent senders, one receiver, every interleaving at shared-access granularity.
 * Agents: harness/agents/c04_agents.c on the REAL librfn/messageq.c, via clang-14 IR and vt/ir2c.py (c04_gen.c is
 * regenerated on every run).  The schedule is a symbolic array.  DISC 0: free preemption (threads on a multiprocessor);
 * DISC 1: nested run-to-completion interrupt handlers with priorities prio[] (an agent that has begun a handler and
 * not finished it excludes every agent of lower priority). */
#include "vt.h"
#include <stdlib.h>
#include "librfn/messageq.h"

#ifndef NS
#define NS 2		/* senders, one message each */
#endif
#ifndef NR
#define NR 2		/* receive attempts by the receiver */
#endif
#ifndef DMAX
#define DMAX 2
#endif
#ifndef DISC
#define DISC 0
#endif
#define NA (NS + 1)
#define RECV NS		/* agent index of the receiver */
#define KSTEPS (NS * 8 + NR * 7 + 2)

struct vt_in { uint8_t depth, held0, r0; uint16_t payload[NS]; uint8_t sched[KSTEPS]; uint8_t spur[NA]; uint8_t prio[NA]; };
#include "vt_in.h"

enum { EV_CLAIM_BEGIN = 1, EV_CLAIM_END, EV_SEND_BEGIN, EV_SEND_END, EV_RECV_BEGIN, EV_RECV_END, EV_PAYLOAD, EV_REL_BEGIN, EV_REL_END, EV_HANDLER_END };
enum { FREE, CLAIMED, SENT, HELD };

static int cur;						/* the agent taking the current step */
static uint8_t spur_left[NA];
static int vt_cas_spurious(void) { if (spur_left[cur]) { spur_left[cur]--; return 1; } return 0; }	/* weak CAS may fail spuriously (once per agent) */
static messageq_t mq;
static uint16_t *storage;
static unsigned D;
#ifdef VT_MONITOR	/* C07: happens-before monitor on the message-queue pattern */
#define VT_NAG NA
#define VT_NLOC (DMAX + 7)
#define vt_cur cur
static int vt_loc_of(char *addr, unsigned size)
{
	(void)size;
	if (VT_IN_OBJECT(addr, storage, D * 2)) return (int)((addr - (char *)storage) / 2);	/* message payloads */
	if (addr == (char *)&mq.num_free) return DMAX;
	if (addr == (char *)&mq.sendp) return DMAX + 1;
	if (addr == (char *)&mq.full_flags) return DMAX + 2;
	if (addr == (char *)&mq.receivep) return DMAX + 3;		/* single-owner bookkeeping of the receiver, accessed plainly */
	if (addr == (char *)&mq.basep) return DMAX + 4;
	if (addr == (char *)&mq.msg_len) return DMAX + 5;
	if (addr == (char *)&mq.queue_len) return DMAX + 6;
	return -1;
}
#include "vt_monitor.h"
#else
#define VT_ACCESS(addr, size, kind, order) ((void)0)
#endif
#define VT_CAS_SPURIOUS() vt_cas_spurious()
#define VT_ASSERT_FAIL() VT_ASSERT(0 && "assert() inside the library fired")
static void vt_ev(int code, int who, char *p, int arg);
static int vt_payload(int who, unsigned k) { (void)k; return who < NS ? in.payload[who] : 0; }
#include "c04_gen.c"

/* ---- ghost ownership ---- */
static uint8_t st[DMAX]; static int owner[DMAX]; static unsigned cseq[DMAX]; static uint16_t written[DMAX];
static unsigned nclaims, nrecv;				/* claim order = the order in which claims obtained their slot */
static bool active[NA];					/* inside a handler (claim..send, or receive..release) */
static bool claim_open[NA], seen_nofree[NA];
static unsigned nsent_total, nrecv_total, kept;

static int slot_of(char *p)
{
	VT_ASSERT(p >= (char *)storage && p < (char *)storage + D * 2);	/* inside the caller's memory */
	unsigned off = (unsigned)(p - (char *)storage);
	VT_ASSERT(off % 2 == 0);
	return (int)(off / 2);
}

static void sample(void)	/* at every step boundary: could a claim in progress have found a free buffer? */
{
	unsigned nonfree = 0, inprog = 0;
	for (unsigned i = 0; i < DMAX; i++) if (i < D && st[i] != FREE) nonfree++;
	for (int a = 0; a < NS; a++) if (claim_open[a]) inprog++;
	for (int a = 0; a < NS; a++) if (claim_open[a] && nonfree + (inprog - 1) >= D) seen_nofree[a] = true;
}

static void vt_ev(int code, int who, char *p, int arg)
{
	int s;
	switch (code) {
	case EV_CLAIM_BEGIN: active[who] = true; claim_open[who] = true; seen_nofree[who] = false; sample(); break;
	case EV_CLAIM_END:
		sample();
		claim_open[who] = false;
		if (!p) { VT_ASSERT(seen_nofree[who]); break; }	/* fails only if no buffer was free at some instant during the call */
		s = slot_of(p);
		VT_ASSERT(st[s] == FREE);			/* no buffer is handed out twice */
		st[s] = CLAIMED; owner[s] = who; cseq[s] = nclaims++;
		break;
	case EV_SEND_BEGIN:
		s = slot_of(p);
		VT_ASSERT(st[s] == CLAIMED && owner[s] == who);	/* still exclusively the claimer's */
		written[s] = *(uint16_t *)p;
		VT_ASSERT(written[s] == in.payload[who]);
		break;
	case EV_SEND_END: s = slot_of(p); VT_ASSERT(st[s] == CLAIMED && owner[s] == who); st[s] = SENT; nsent_total++; break;
	case EV_RECV_BEGIN: active[who] = true; break;
	case EV_RECV_END:
		if (!p) break;
		s = slot_of(p);
		VT_ASSERT(st[s] == SENT);			/* only sent messages reach the receiver ... */
		VT_ASSERT(cseq[s] == nrecv);			/* ... in claim order, each once */
		nrecv++; nrecv_total++;
		st[s] = HELD;
		break;
	case EV_PAYLOAD: s = slot_of(p); VT_ASSERT(st[s] == HELD); VT_ASSERT((uint16_t)arg == written[s]); break;	/* the contents written before the send */
	case EV_REL_BEGIN: s = slot_of(p); VT_ASSERT(st[s] == HELD); break;
	case EV_REL_END: s = slot_of(p); st[s] = FREE; break;
	case EV_HANDLER_END: active[who] = false; break;
	}
}

static struct sender_ctx sc[NS]; static struct receiver_ctx rc;

static bool all_agents_done(void)
{
	bool d = rc.done;
	for (int a = 0; a < NS; a++) d = d && sc[a].done;
	return d;
}
#if DISC == 1
/* run-to-completion nesting: an active handler excludes every agent of lower priority */
static void assume_may_preempt(int who)
{
	for (int a = 0; a < NA; a++) if (active[a] && a != who) __CPROVER_assume(in.prio[who] > in.prio[a]);
}
#endif

/* the schedule loop is the only loop of its function, so its cbmc name is run_schedule.0 whatever the discipline */
static void run_schedule(void)
{
	bool idle = false;
	for (unsigned k = 0; k < KSTEPS; k++) {
		uint8_t who = in.sched[k];
		__CPROVER_assume(who <= NA);
		if (idle) __CPROVER_assume(who == NA);
		if (who == NA) { __CPROVER_assume(all_agents_done()); idle = true; continue; }
#if DISC == 1
		assume_may_preempt(who);
#endif
		cur = who;
		if (who == RECV) { __CPROVER_assume(!rc.done); receiver_step(&rc); }
		else { __CPROVER_assume(!sc[who].done); sender_step(&sc[who]); }
#ifdef VT_MONITOR
		VT_ASSERT(!vt_race);	/* payload bytes and the receiver's private index: every conflicting pair is ordered by happens-before */
		VT_ASSERT(!vt_stray);
#endif
		sample();
	}
	__CPROVER_assume(all_agents_done());
}

void h_mq(void)
{
	VT_LOAD();
	D = in.depth;
#ifdef DEPTH
	__CPROVER_assume(D == DEPTH);
#endif
	__CPROVER_assume(D >= 1 && D <= DMAX && in.held0 <= D && in.r0 < D);
	storage = VT_MALLOC(DMAX * 2);
	__CPROVER_assume(storage != 0);
	messageq_init(&mq, storage, D * 2, 2);
	/* pre-state: held0 messages were claimed, sent and received earlier and are still held by the receiver's client
	 * (so the queue can be full while claims are in flight); ring position r0 is arbitrary */
	unsigned pos = in.r0;
	for (unsigned i = 0; i < DMAX; i++) { st[i] = FREE; owner[i] = -1; }
	for (unsigned i = 0; i < DMAX; i++) if (i < in.held0) { st[pos] = HELD; pos = (pos + 1) % D; }
	/* the held ones precede the window: receivep == sendp == r0 + held0 */
	mq.receivep = (unsigned char)pos; atomic_store(&mq.sendp, pos); atomic_store(&mq.num_free, D - in.held0); atomic_store(&mq.full_flags, 0);

#ifdef VT_MONITOR
	vt_monitor_init();
#endif
	for (int a = 0; a < NS; a++) { sc[a].pc = 0; sc[a].done = 0; sc[a].v_0 = (char *)&mq; sc[a].v_1 = (uint32_t)a; sc[a].v_2 = 1; }
	rc.pc = 0; rc.done = 0; rc.v_0 = (char *)&mq; rc.v_1 = RECV; rc.v_2 = in.held0 ? 0 : NR;	/* releases follow receives in order: with older messages still held the receiver stays out */
	for (int a = 0; a < NA; a++) { __CPROVER_assume(in.spur[a] <= 1); spur_left[a] = in.spur[a]; }
#if DISC == 1
	for (int a = 0; a < NA; a++) { __CPROVER_assume(in.prio[a] < NA); for (int b = 0; b < a; b++) __CPROVER_assume(in.prio[a] != in.prio[b]); }
#ifdef RECV_LOWEST
	__CPROVER_assume(in.prio[RECV] == 0);
#endif
#ifdef RECV_HIGHEST
	__CPROVER_assume(in.prio[RECV] == NA - 1);
#endif
#endif
	run_schedule();
	/* quiescence: every sent message not yet received is received now, in claim order, intact; then the number of
	 * free buffers is the capacity minus the messages still held */
	for (unsigned i = 0; i < DMAX; i++) {
		uint16_t *m = messageq_receive(&mq);
		if (!m) break;
		vt_ev(EV_RECV_END, RECV, (char *)m, 0);
		vt_ev(EV_PAYLOAD, RECV, (char *)m, *m);
		if (in.held0 == 0) { messageq_release(&mq, m); vt_ev(EV_REL_END, RECV, (char *)m, 0); } else kept++;
	}
	VT_ASSERT(nrecv_total == nsent_total);			/* every sent message was received exactly once */
	unsigned free_claims = 0;
	for (unsigned i = 0; i < DMAX + 1; i++) if (messageq_claim(&mq)) free_claims++;
	VT_ASSERT(free_claims == D - in.held0 - kept);
	VT_WITNESS(nsent_total == NS && in.sched[0] != in.sched[1] && in.sched[1] != in.sched[2]);
	VT_WITNESS(nsent_total < NS && D == 1);			/* a claim that failed on a full queue */
}
