/* C15 piece 3: command lookup and registration.
 * h_find:     find_command over an ARBITRARY sorted, sentinel-terminated table of T symbolic short names.
 * h_register: console_register of a symbolic name into such a table, incl. the full table; lookup afterwards. */
#include "c15_common.h"
#ifndef T
#define T 4
#endif
struct vt_in { uint8_t t; char name[T + 1][3]; char arg0[4]; uint8_t probe; };
#include "vt_in.h"
static console_t c;
static pt_state_t nop(console_t *cc) { (void)cc; return PT_EXITED; }
static console_cmd_t cmds[T + 1];
static char names[T + 1][3];

static bool valid_name(const char *s) { return s[0] >= 'a' && s[0] <= 'c' && (s[1] == 0 || (s[1] >= 'a' && s[1] <= 'c' && s[2] == 0)); }
static int scmp(const char *a, const char *b) { for (int i = 0; i < 3; i++) { if (a[i] != b[i]) return (unsigned char)a[i] - (unsigned char)b[i]; if (!a[i]) return 0; } return 0; }

static unsigned build_table(void)
{
	unsigned t = in.t;
	__CPROVER_assume(t <= T);
	for (unsigned i = 0; i < lengthof(cmd_table); i++) cmd_table[i] = 0;
	for (unsigned i = 0; i < T + 1; i++) {
		for (int k = 0; k < 3; k++) names[i][k] = in.name[i][k];
		cmds[i].name = names[i]; cmds[i].fn = nop;
		if (i < t) { __CPROVER_assume(valid_name(names[i])); if (i > 0) __CPROVER_assume(scmp(names[i - 1], names[i]) <= 0); cmd_table[i] = &cmds[i]; }
	}
	cmd_table[t] = &cmd_unknown;			/* the sentinel (name == NULL) terminates the table */
	return t;
}

void h_find(void)
{
	VT_LOAD();
	unsigned t = build_table();
	memset(&c, 0, sizeof(c));
	for (int k = 0; k < 4; k++) c.scratch.buf[k] = in.arg0[k];
	c.scratch.buf[3] = 0;
	c.argv[0] = c.scratch.buf; c.argc = 1;
	find_command(&c);
	bool found = false;
	for (unsigned i = 0; i < T; i++) if (i < t && scmp(names[i], c.scratch.buf) == 0) found = true;
	if (!found) VT_ASSERT(c.cmd == &cmd_unknown);			/* unknown or empty first token: nothing registered runs */
	else { VT_ASSERT(c.cmd != &cmd_unknown && c.cmd->name != 0 && scmp(c.cmd->name, c.scratch.buf) == 0); }	/* exact name */
	VT_WITNESS(found && t == T && c.cmd == &cmds[T - 1]);
	VT_WITNESS(!found && c.scratch.buf[0] == 'a' && t > 0 && names[0][0] == 'a');	/* a prefix of a registered name is not a match */
}

void h_register(void)
{
	VT_LOAD();
	unsigned t = build_table();
	const console_cmd_t *before[lengthof(cmd_table)];
#ifdef FULL
	/* pad with copies of the last real entry so that the table is full (32 slots incl. the sentinel) or one short of it */
	__CPROVER_assume(t >= 1);
	unsigned total = FULL;				/* number of non-NULL slots including the sentinel */
	for (unsigned i = 0; i < lengthof(cmd_table); i++) if (i >= t && i + 1 < total) cmd_table[i] = &cmds[t - 1];
	cmd_table[t] = &cmds[t - 1];
	cmd_table[total - 1] = &cmd_unknown;
	t = total - 1;
#endif
	for (unsigned i = 0; i < lengthof(cmd_table); i++) before[i] = cmd_table[i];
	__CPROVER_assume(valid_name(names[T]));
	int r = console_register(&cmds[T]);
	if (t + 1 >= lengthof(cmd_table)) {
		VT_ASSERT(r != 0);								/* fails cleanly when the table is full ... */
		for (unsigned i = 0; i < lengthof(cmd_table); i++) VT_ASSERT(cmd_table[i] == before[i]);	/* ... changing nothing */
	} else {
		VT_ASSERT(r == 0);
		/* still sorted, still sentinel-terminated, old entries all present in their order, the new one present */
		unsigned pos = lengthof(cmd_table);
		for (unsigned i = 0; i < lengthof(cmd_table); i++) if (i <= t && cmd_table[i] == &cmds[T] && pos == lengthof(cmd_table)) pos = i;
		VT_ASSERT(pos <= t);
		for (unsigned i = 0; i < lengthof(cmd_table); i++) {
			if (i < pos) VT_ASSERT(cmd_table[i] == before[i]);
			else if (i > pos && i <= t + 1) VT_ASSERT(cmd_table[i] == before[i - 1]);
			else if (i > t + 1) VT_ASSERT(cmd_table[i] == 0);
		}
		VT_ASSERT(cmd_table[t + 1] == &cmd_unknown);
		if (pos > 0) VT_ASSERT(scmp(cmd_table[pos - 1]->name, names[T]) <= 0);
		if (pos < t) VT_ASSERT(scmp(names[T], cmd_table[pos + 1]->name) < 0);
		/* and it is found by its exact name */
		memset(&c, 0, sizeof(c));
		for (int k = 0; k < 3; k++) c.scratch.buf[k] = names[T][k];
		c.argv[0] = c.scratch.buf;
		find_command(&c);
		VT_ASSERT(c.cmd != &cmd_unknown && scmp(c.cmd->name, names[T]) == 0);
	}
#ifdef FULL
	VT_WITNESS(r == (FULL == 32 ? -1 : 0));
#else
	VT_WITNESS(r == 0 && t == T && cmd_table[0] == &cmds[T]);	/* new name sorts first */
	VT_WITNESS(r == 0 && t == T && cmd_table[T] == &cmds[T]);	/* new name sorts last */
#endif
}
