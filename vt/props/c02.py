from .c01 import step, hist, U, TOL, OPS
from ..core import Query

META = {
    "level": "model_checking",
    "functions": ["fibre_timeout", "fibre_scheduler_next", "handle_timerq", "duetime_cmp", "list_insert_sorted", "cyclecmp32", "fibre_run", "fibre_kill"],
    "units": ["librfn/fibre.c (included into the harness TU)", "librfn/list.c", "librfn/messageq.c", "librfn/util.c"],
    "bounds": {"quick": "one API call from ANY valid scheduler state: fibre_run / fibre_kill over 3 fibres, fibre_scheduler_next (body script of <= 1 nested call, one query "
                        "per kind incl. fibre_timeout) over 2 fibres (thorough: 3): "
                        "any split into run queue / sleepers / idle, sleepers' due offsets anywhere in (0, 2^20) in due order, <= 2 pending interrupt-context "
                        "requests, time base T0 = any 32-bit value (every placement in the ring, both wrap windows), pass advance < 2^20, timeout offsets in "
                        "(-2^20, 2^20). Inductive over histories; plus all 2-call histories from reset",
               "thorough": "as quick with 3 fibres for the pass"},
    "outside": ["pending due times 2^31 or more ticks ahead (property scope); offsets are bounded by 2^20 only to keep the model's 64-bit arithmetic and the "
                "32-bit cyclic arithmetic trivially in range - the time BASE is unrestricted", "more than 4 fibres alive", "more than one unsatisfied fibre_timeout per dispatch (scope)"],
    "assumptions": ["model keeps due times as mathematical offsets from T0; the real code must agree using 32-bit cyclic arithmetic",
                    "start states up to renaming of fibres (identity is only used through pointer equality)",
                    "representation invariant re-established after every call (asserted): queues well formed, sleepers sorted, duetime fields = T0 + offset"],
    "rule": "distinct = call kind x bounds.",
}
G = ["ORDER", "TIMERS"]


def queries(tier, kf):
    qs = [step("c02", op, 3, 2, 1, G) for op in (0, 2)]
    nfn = 2 if tier == "quick" else 3
    qs += [step("c02", 3, nfn, 1 if tier == "quick" else 2, 1, G, sop=sop, timeout=1500 if tier == "quick" else 7200) for sop in range(5)]
    qs.append(hist("c02-hist-k2", 2, 3, 1, G, timeout=3000, mem=14))
    cans = [("cmp-noncyclic", "librfn/fibre.c", "\treturn f1->duetime - f2->duetime;", "\treturn f1->duetime < f2->duetime ? -1 : f1->duetime > f2->duetime;", 3),
            ("expire-strict", "librfn/fibre.c", "cyclecmp32(timeout_fibre->duetime, kernel.now) <= 0) {", "cyclecmp32(timeout_fibre->duetime, kernel.now) < 0) {", 3),
            ("timeout-strict", "librfn/fibre.c", "\tif (cyclecmp32(duetime, kernel.now) <= 0)\n\t\treturn true;", "\tif (cyclecmp32(duetime, kernel.now) < 0)\n\t\treturn true;", 3),
            ("run-keeps-timer", "librfn/fibre.c", "\t\t(void) list_remove(&kernel.timerq, &f->link);\n\t\tlist_insert(&kernel.runq, &f->link);", "\t\tlist_insert(&kernel.runq, &f->link);", 0),
            ("sorted-unstable", "librfn/list.c", "\tif (nodecmp(node, list->tail) >= 0) {", "\tif (nodecmp(node, list->tail) > 0) {", 3)]
    for n, f, old, new, op in cans:
        if op == 3:
            qs.append(step("c02", 3, 2, 1, 1, G, role="canary", mutate=[(f, old, new)], name="c02-canary-" + n, sop=4 if n in ("timeout-strict", "sorted-unstable", "cmp-noncyclic") else 0, timeout=1500))
        else:
            qs.append(step("c02", op, 3, 2, 1, G, role="canary", mutate=[(f, old, new)], name="c02-canary-" + n))
    return qs
