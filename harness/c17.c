/* C17: rand31_r is exactly the Park-Miller minimal standard generator, for every valid state.
 * Real code: librfn/rand.c (linked).  Oracle: 64-bit reference arithmetic. */
#include "vt.h"
#include "librfn/rand.h"
struct vt_in { uint32_t s; };
#include "vt_in.h"
void h_rand(void)
{
	VT_LOAD();
	uint32_t s = in.s;
	__CPROVER_assume(s >= 1 && s <= 0x7ffffffeu);
#ifdef SPLIT_LO
	__CPROVER_assume(s >= SPLIT_LO && s <= SPLIT_HI);
#endif
	uint32_t seed = s;
	uint32_t r = rand31_r(&seed);
	uint32_t e = (uint32_t)(((uint64_t)16807 * s) % 0x7fffffffu);
	VT_ASSERT(r == e);
	VT_ASSERT(seed == e);
	VT_ASSERT(r >= 1 && r <= 0x7ffffffeu);
	VT_WITNESS(r == 1043618065u);
}
