"""C08: generator of protothread programs.

Each program is an AST over the PT_* macros, straight-line effects, if/else and bounded loops over persistent
variables, with children spawned to a bounded depth.  From ONE AST two C functions are emitted:
  (i)  the body with the REAL macros from include/librfn/protothreads.h (one blocking macro per source line),
  (ii) a direct-style twin: the same AST as plain sequential code in which a blocking point appends RET(code)
       to a log and carries on (PT_WAIT_UNTIL re-evaluates its condition per RET, a spawned child is re-started
       and its yields/waits are relayed as the parent's own RETs).
Conditions read a symbolic tape, so the solver explores every data-dependent path of every program.
"""
import random

# AST: tuples
#  ("E", k)            effect k
#  ("Y",) ("W",)       PT_YIELD / PT_WAIT
#  ("WU",)             PT_WAIT_UNTIL(tape)
#  ("IF", a, b)        if (tape) a else b          (a, b lists)
#  ("FOR", n, body)    for (ctr = 0; ctr < n; ctr++) body     (persistent counter)
#  ("WHILE", body)     while (tape) body
#  ("X",) ("XO",) ("F",) ("FO",)   PT_EXIT / PT_EXIT_ON(tape) / PT_FAIL / PT_FAIL_ON(tape)
#  ("SP", c, chk)      PT_SPAWN(child c); chk: None | "ok" (if (PT_CHILD_OK()) E else E)
#  ("SPC", c)          PT_SPAWN_AND_CHECK(child c)
#  ("CALL", c)         PT_CALL(child c)

BLOCKING = {"Y", "W", "WU", "SP", "SPC"}


class Emit:
    def __init__(self, pid):
        self.pid = pid
        self.nctr = 0
        self.nchild = 0
        self.eff = 0

    def fresh_ctr(self):
        self.nctr += 1
        return "c%d" % (self.nctr - 1)


def count_nodes(body):
    n = 0
    for s in body:
        n += 1
        if s[0] == "IF":
            n += count_nodes(s[1]) + count_nodes(s[2])
        elif s[0] in ("FOR",):
            n += count_nodes(s[2])
        elif s[0] == "WHILE":
            n += count_nodes(s[1])
    return n


def gen_body(rng, size, depth, child_depth, nchildren, top=True):
    """Random body of about `size` statements."""
    body = []
    kinds = ["E", "Y", "W", "WU", "IF", "FOR", "WHILE", "XO", "FO"]
    if child_depth > 0 and nchildren:
        kinds += ["SP", "SP", "SPC", "CALL"]
    if not top:
        kinds += ["X", "F"]
    while size > 0:
        k = rng.choice(kinds)
        if k in ("IF", "FOR", "WHILE") and (depth <= 0 or size < 2):
            k = rng.choice(["E", "Y", "WU"])
        if k == "E":
            body.append(("E",))
            size -= 1
        elif k in ("Y", "W", "WU", "XO", "FO", "X", "F"):
            body.append((k,))
            size -= 1
            if k in ("X", "F"):
                break
        elif k == "IF":
            a = gen_body(rng, max(1, (size - 1) // 2), depth - 1, child_depth, nchildren, False)
            b = gen_body(rng, max(0, (size - 1) // 3), depth - 1, child_depth, nchildren, False) if rng.random() < 0.6 else []
            body.append(("IF", a, b))
            size -= 1 + count_nodes(a) + count_nodes(b)
        elif k == "FOR":
            b = gen_body(rng, max(1, (size - 1) // 2), depth - 1, child_depth, nchildren, False)
            body.append(("FOR", rng.choice([1, 2, 2, 3]), b))
            size -= 1 + count_nodes(b)
        elif k == "WHILE":
            b = gen_body(rng, max(1, (size - 1) // 2), depth - 1, child_depth, nchildren, False)
            body.append(("WHILE", b))
            size -= 1 + count_nodes(b)
        elif k == "SP":
            body.append(("SP", rng.randrange(nchildren), rng.choice([None, "ok", "ok"])))
            size -= 1
        elif k == "SPC":
            body.append(("SPC", rng.randrange(nchildren)))
            size -= 1
        elif k == "CALL":
            body.append(("CALL", rng.randrange(nchildren)))
            size -= 1
    return body


class Prog:
    """One program = a top-level body + a list of child bodies (children may spawn lower-numbered children)."""

    def __init__(self, pid, top, children):
        self.pid = pid
        self.top = top
        self.children = children


def number_effects(prog):
    n = [0]

    def walk(body):
        out = []
        for s in body:
            if s[0] == "E":
                n[0] += 1
                out.append(("E", n[0]))
            elif s[0] == "IF":
                out.append(("IF", walk(s[1]), walk(s[2])))
            elif s[0] == "FOR":
                out.append(("FOR", s[1], walk(s[2])))
            elif s[0] == "WHILE":
                out.append(("WHILE", walk(s[1])))
            else:
                out.append(s)
        return out
    prog.top = walk(prog.top)
    prog.children = [walk(c) for c in prog.children]


def max_blocking_per_tape(prog):
    return 0


# ---------------------------------------------------------------------------
# emission

def emit_real(prog):
    """Body with the real macros.  State struct: pt, counters, child states (recursively, per spawn site)."""
    pid = prog.pid
    lines = []
    structs = []

    def fn_name(which):
        return "p%d_%s_real" % (pid, which)

    def emit_fn(which, body, child_limit):
        # child_limit: children with index < child_limit may be spawned
        st = "struct p%d_%s_rs" % (pid, which)
        fields = ["pt_t pt;"]
        ctr = [0]
        spawn_sites = []
        code = []

        def stmts(b, ind):
            for s in b:
                k = s[0]
                p = "\t" * ind
                if k == "E":
                    code.append(p + "LOG_E(%d);" % (s[1] + 100 * (0 if which == "top" else int(which[1:]) + 1)))
                elif k == "Y":
                    code.append(p + "PT_YIELD();")
                elif k == "W":
                    code.append(p + "PT_WAIT();")
                elif k == "WU":
                    code.append(p + "PT_WAIT_UNTIL(TAPE_U());")
                elif k == "IF":
                    code.append(p + "if (TAPE_B()) {")
                    stmts(s[1], ind + 1)
                    if s[2]:
                        code.append(p + "} else {")
                        stmts(s[2], ind + 1)
                    code.append(p + "}")
                elif k == "FOR":
                    c = "c%d" % ctr[0]
                    ctr[0] += 1
                    fields.append("int %s;" % c)
                    code.append(p + "for (s->%s = 0; s->%s < %d; s->%s++) {" % (c, c, s[1], c))
                    stmts(s[2], ind + 1)
                    code.append(p + "}")
                elif k == "WHILE":
                    code.append(p + "while (TAPE_W()) {")
                    stmts(s[1], ind + 1)
                    code.append(p + "}")
                elif k == "X":
                    code.append(p + "PT_EXIT();")
                elif k == "XO":
                    code.append(p + "PT_EXIT_ON(TAPE_B());")
                elif k == "F":
                    code.append(p + "PT_FAIL();")
                elif k == "FO":
                    code.append(p + "PT_FAIL_ON(TAPE_B());")
                elif k in ("SP", "SPC", "CALL"):
                    ci = s[1] % child_limit if child_limit else 0
                    site = "k%d" % len(spawn_sites)
                    spawn_sites.append((site, ci))
                    fields.append("struct p%d_c%d_rs %s;" % (pid, ci, site))
                    call = "p%d_c%d_real(&s->%s)" % (pid, ci, site)
                    if k == "SP":
                        code.append(p + "PT_SPAWN(&s->%s.pt, %s);" % (site, call))
                        if s[2] == "ok":
                            code.append(p + "if (PT_CHILD_OK()) LOG_E(901); else LOG_E(902);")
                    elif k == "SPC":
                        code.append(p + "PT_SPAWN_AND_CHECK(&s->%s.pt, %s);" % (site, call))
                    else:
                        code.append(p + "PT_CALL(&s->%s.pt, %s);" % (site, call))
        stmts(body, 1)
        structs.append("%s { %s };" % (st, " ".join(fields)))
        out = ["static pt_state_t %s(%s *s)" % (fn_name(which), st), "{", "\tPT_BEGIN(&s->pt);"] + code + ["\tPT_END();", "}"]
        return out

    for i, c in enumerate(prog.children):
        lines += emit_fn("c%d" % i, c, i)
    lines += emit_fn("top", prog.top, len(prog.children))
    return structs, lines


def emit_direct(prog):
    """Direct-style twin.  Every function returns 0 = ran to its end / PT_EXIT, 1 = failed; a non-local stop (exit/fail of
    the TOP body) is modelled by the `done` flag checked after every statement that can set it."""
    pid = prog.pid
    lines = []

    def emit_fn(which, body, child_limit):
        code = []
        ctr = [0]
        decl = []

        def stmts(b, ind):
            for s in b:
                k = s[0]
                p = "\t" * ind
                if k == "E":
                    code.append(p + "LOG_E(%d);" % (s[1] + 100 * (0 if which == "top" else int(which[1:]) + 1)))
                elif k == "Y":
                    code.append(p + "RET(PT_YIELDED);")
                elif k == "W":
                    code.append(p + "RET(PT_WAITING);")
                elif k == "WU":
                    code.append(p + "while (!TAPE_U()) RET(PT_WAITING);")
                elif k == "IF":
                    code.append(p + "if (TAPE_B()) {")
                    stmts(s[1], ind + 1)
                    if s[2]:
                        code.append(p + "} else {")
                        stmts(s[2], ind + 1)
                    code.append(p + "}")
                elif k == "FOR":
                    c = "c%d" % ctr[0]
                    ctr[0] += 1
                    decl.append("int %s;" % c)
                    code.append(p + "for (%s = 0; %s < %d; %s++) {" % (c, c, s[1], c))
                    stmts(s[2], ind + 1)
                    code.append(p + "}")
                elif k == "WHILE":
                    code.append(p + "while (TAPE_W()) {")
                    stmts(s[1], ind + 1)
                    code.append(p + "}")
                elif k == "X":
                    code.append(p + "return PT_EXITED;")
                elif k == "XO":
                    code.append(p + "if (TAPE_B()) return PT_EXITED;")
                elif k == "F":
                    code.append(p + "return PT_FAILED;")
                elif k == "FO":
                    code.append(p + "if (TAPE_B()) return PT_FAILED;")
                elif k in ("SP", "SPC", "CALL"):
                    ci = s[1] % child_limit if child_limit else 0
                    if k == "CALL":
                        # the child runs to completion inside one invocation: its yields and waits are NOT visible outside
                        code.append(p + "{ int sv = quiet; quiet = 1; (void)p%d_c%d_direct(); quiet = sv; }" % (pid, ci))
                    else:
                        code.append(p + "res = p%d_c%d_direct();" % (pid, ci))
                        if k == "SP" and s[2] == "ok":
                            code.append(p + "if (res != PT_FAILED) LOG_E(901); else LOG_E(902);")
                        if k == "SPC":
                            code.append(p + "if (res == PT_FAILED) return PT_FAILED;")
        stmts(body, 1)
        out = ["static pt_state_t p%d_%s_direct(void)" % (pid, which), "{", "\tpt_state_t res = 0; (void)res;"]
        out += ["\t" + d for d in decl] + code + ["\treturn PT_EXITED;", "}"]
        return out

    for i, c in enumerate(prog.children):
        lines += emit_fn("c%d" % i, c, i)
    lines += emit_fn("top", prog.top, len(prog.children))
    return lines


RT = r'''
/* generated by vt/ptgen.py - do not edit */
#include "vt.h"
#include "librfn/protothreads.h"
#ifndef TAPE
#define TAPE 8
#endif
#define LOGMAX 96
struct vt_in { uint8_t tape[TAPE]; };
#include "vt_in.h"
static unsigned tpos;
static int logbuf[2][LOGMAX]; static unsigned logn[2]; static int which_log; static int quiet; static int overflow;
/* the tape: conditions of if / exit-on / fail-on (default 0 when exhausted), PT_WAIT_UNTIL (default: satisfied), while (default: stop) */
static int TAPE_B(void) { return tpos < TAPE ? (in.tape[tpos++] & 1) : 0; }
static int TAPE_U(void) { return tpos < TAPE ? (in.tape[tpos++] & 1) : 1; }
static int TAPE_W(void) { return tpos < TAPE ? (in.tape[tpos++] & 1) : 0; }
static void put(int v) { if (logn[which_log] < LOGMAX) logbuf[which_log][logn[which_log]++] = v; else overflow = 1; }
#define LOG_E(k) put(k)
/* a blocking point of the direct-style twin: what the driver of the real function sees returned (unless inside PT_CALL) */
#define RET(code) do { if (!quiet) put(-1 - (int)(code)); } while (0)
'''


def emit_program(prog, maxinv):
    maxinv = prog.maxinv if hasattr(prog, "maxinv") else maxinv
    structs, real = emit_real(prog)
    direct = emit_direct(prog)
    pid = prog.pid
    h = []
    h.append("void h_p%d(void)" % pid)
    h.append("{")
    h.append("\tVT_LOAD();")
    h.append("\tstruct p%d_top_rs st; memset(&st, 0, sizeof st);" % pid)
    h.append("\t/* (i) the real macros, invoked until exit; every return code is logged */")
    h.append("\twhich_log = 0; tpos = 0; quiet = 0;")
    h.append("\tpt_state_t r = PT_YIELDED; unsigned inv = 0;")
    h.append("\tfor (unsigned i = 0; i < %d && r < PT_EXITED; i++) { r = p%d_top_real(&st); put(-1 - (int)r); inv++; }" % (maxinv, pid))
    h.append("\tVT_ASSERT(r >= PT_EXITED);\t/* terminates within the derived bound */")
    h.append("\tunsigned used0 = tpos;")
    h.append("\t/* (ii) one run of the direct-style twin on the same tape */")
    h.append("\twhich_log = 1; tpos = 0; quiet = 0;")
    h.append("\tpt_state_t d = p%d_top_direct(); put(-1 - (int)d);" % pid)
    h.append("\tVT_ASSERT(!overflow);")
    h.append("\tVT_ASSERT(logn[0] == logn[1]);")
    h.append("\tfor (unsigned i = 0; i < LOGMAX; i++) if (i < logn[0]) VT_ASSERT(logbuf[0][i] == logbuf[1][i]);")
    h.append("\tVT_ASSERT(used0 == tpos);")
    h.append("\tVT_ASSERT(d == r);")
    h.append("\tVT_WITNESS(inv >= 1);")
    h.append("}")
    return structs, real + direct + h


def has_tape(body):
    for s in body:
        if s[0] in ("WU", "IF", "WHILE", "XO", "FO"):
            return True
        if s[0] == "FOR" and has_tape(s[2]):
            return True
    return False


def make_programs(seed, count, size, depth, child_depth, first_pid=0):
    rng = random.Random(seed)
    progs = []
    pid = first_pid
    attempts = 0
    while len(progs) < count and attempts < count * 50:
        attempts += 1
        nchildren = rng.choice([0, 1, 2]) if child_depth > 0 else 0
        children = []
        for i in range(nchildren):
            children.append(gen_body(rng, rng.randint(1, max(1, size - 2)), depth - 1, 1 if i > 0 and child_depth > 1 else 0, i, top=False))
        top = gen_body(rng, size, depth, child_depth, nchildren, top=True)
        if not has_tape(top) and not any(has_tape(c) for c in children):
            continue    # nothing data-dependent: still valid, but keep the batch interesting
        p = Prog(pid, top, children)
        number_effects(p)
        progs.append(p)
        pid += 1
    return progs


FIXED = [
    # hand-picked shapes that must always be present (the statement's named behaviours)
    ([("E",), ("Y",), ("E",), ("W",), ("E",)], []),
    ([("FOR", 3, [("WU",), ("E",)]), ("E",)], []),
    ([("IF", [("FOR", 2, [("IF", [("Y",)], [("WU",)]), ("E",)])], [("W",)]), ("XO",), ("E",)], []),
    ([("WHILE", [("E",), ("Y",), ("FO",)]), ("E",)], []),
    ([("E",), ("SP", 0, "ok"), ("E",), ("SP", 0, "ok")], [[("E",), ("Y",), ("FO",), ("WU",), ("E",)]]),
    ([("FOR", 2, [("SP", 0, "ok"), ("E",)])], [[("WU",), ("XO",), ("Y",), ("F",)]]),
    ([("SPC", 0), ("E",), ("Y",)], [[("Y",), ("FO",), ("E",)]]),
    ([("CALL", 0), ("E",), ("W",)], [[("E",), ("Y",), ("WU",), ("E",)]]),
    ([("SP", 1, "ok"), ("E",)], [[("Y",), ("FO",)], [("E",), ("SP", 0, "ok"), ("W",), ("SPC", 0), ("E",)]]),
    ([("IF", [("SP", 0, None)], [("Y",)]), ("WHILE", [("SP", 0, "ok"), ("XO",)])], [[("W",), ("IF", [("F",)], [])]]),
]


def fixed_programs(first_pid=0):
    out = []
    for i, (top, ch) in enumerate(FIXED):
        p = Prog(first_pid + i, top, ch)
        number_effects(p)
        out.append(p)
    return out


def write_batch(path, progs, tape, maxinv):
    parts = [RT.replace("#define TAPE 8", "#define TAPE %d" % tape)]
    for p in progs:
        structs, code = emit_program(p, maxinv)
        parts.append("/* ---- program %d: top=%r children=%r ---- */" % (p.pid, p.top, p.children))
        parts += structs
        parts += code
    open(path, "w").write("\n".join(parts) + "\n")


# ---------------------------------------------------------------------------
# static bounds (so that unwinding bounds are derived, not guessed)

def bounds(prog, tape):
    """(max RET events visible or not, max effects) of one full run; WHILE iterations and WAIT_UNTIL blocks are tape-limited."""
    child_b = []

    def walk(body, limit):
        r = e = 0
        for s in body:
            k = s[0]
            if k in ("Y", "W"):
                r += 1
            elif k == "WU":
                r += tape          # crude: every tape element could be a refusal here
            elif k == "E":
                e += 1
            elif k == "IF":
                ra, ea = walk(s[1], limit)
                rb, eb = walk(s[2], limit)
                r += max(ra, rb)
                e += max(ea, eb)
            elif k == "FOR":
                rb, eb = walk(s[2], limit)
                r += s[1] * rb
                e += s[1] * eb
            elif k == "WHILE":
                rb, eb = walk(s[1], limit)
                r += tape * rb
                e += tape * eb
            elif k in ("SP", "SPC", "CALL"):
                ci = s[1] % limit if limit else 0
                rc, ec = child_b[ci]
                r += rc
                e += ec + (1 if k == "SP" and s[2] == "ok" else 0)
        return r, e
    for i, c in enumerate(prog.children):
        child_b.append(walk(c, i))
    return walk(prog.top, len(prog.children))


def inner_bound(prog, tape):
    """bound for every loop inside the generated bodies: for <= 3, while / wait-until <= tape, PT_CALL <= the child's RET events"""
    cb = [0]
    b = bounds(prog, tape)   # fills nothing, recompute children below
    child_b = []

    def walk(body, limit):
        r = 0
        for s in body:
            k = s[0]
            if k in ("Y", "W"):
                r += 1
            elif k == "WU":
                r += tape
            elif k == "IF":
                r += max(walk(s[1], limit), walk(s[2], limit))
            elif k == "FOR":
                r += s[1] * walk(s[2], limit)
            elif k == "WHILE":
                r += tape * walk(s[1], limit)
            elif k in ("SP", "SPC", "CALL"):
                ci = s[1] % limit if limit else 0
                r += child_b[ci]
                if k == "CALL":
                    cb[0] = max(cb[0], child_b[ci] + 1)
        return r
    for i, c in enumerate(prog.children):
        child_b.append(walk(c, i))
    walk(prog.top, len(prog.children))
    return max(tape + 1, 4, cb[0]) + 1


def acceptable(prog, tape, max_events=40, max_log=90):
    r, e = bounds(prog, tape)
    prog.maxinv = r + 2
    prog.inner = inner_bound(prog, tape)
    return r + 2 <= max_events and r + e + 2 <= max_log


def batch(seed, count, size, depth, child_depth, tape, include_fixed):
    progs = fixed_programs(0) if include_fixed else []
    progs = [p for p in progs if acceptable(p, tape)]
    pid = len(progs) if include_fixed else 0
    k = 0
    while len(progs) < count + (len(FIXED) if include_fixed else 0) and k < 400:
        for p in make_programs(seed * 1000 + k, 1, size, depth, child_depth, first_pid=0):
            if acceptable(p, tape):
                p.pid = pid
                pid += 1
                progs.append(p)
        k += 1
    return progs
