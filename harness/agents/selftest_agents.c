/* units translated in plain mode for the translator self-test */
#include "librfn/ringbuf.c"
#include "librfn/messageq.c"
