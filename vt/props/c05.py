from .. import gens
from ..core import Query

IMM = {"%struct.ringbuf_t": {0, 1}}
AGENTS = ["producer", "consumer", "producer_putchar", "consumer_poll"]
SPECS = [(a, "machine", a) for a in AGENTS]
IMMOFF = {a: {0: {0, 8}} for a in AGENTS}      # bufp and buf_len: written by ringbuf_init only, before the concurrent phase
GEN = {opt: gens.ir_gen("c05_agents.c", "c05_gen.c", SPECS, immutable=IMM, immutable_offsets=IMMOFF, opt=opt) for opt in ("-O1", "-O2", "-O0")}

META = {
    "level": "model_checking",
    "functions": ["ringbuf_put", "ringbuf_get", "ringbuf_empty", "ringbuf_putchar", "ringbuf_init (sequential set-up)"],
    "units": ["librfn/ringbuf.c via clang-14 -O1 LLVM IR (fully inlined into harness/agents/c05_agents.c) translated by vt/ir2c.py to step machines; "
              "include/librfn/ringbuf.h"],
    "bounds": {"quick": "every interleaving (symbolic schedule, one shared-memory access per step) of one producer doing <= 2 puts of symbolic bytes with one "
                        "consumer doing <= 2 gets under free preemption, the same under producer-as-interrupt and consumer-as-interrupt; buffer length 2..3, every "
                        "start index, all 256 byte values; "
                        "the ringbuf_putchar (retry until accepted) / ringbuf_empty-polling agents at 2 + 2 on a ring of length 2, where the second putchar always meets a full ring",
               "thorough": "3 + 3 operations under all three disciplines, ringbuf_putchar / ringbuf_empty-polling agents at 2 + 2 also on length 3, the -O2 IR at 2 + 2, and buffer length 4"},
    "outside": ["more operations or longer rings than stated (the code depends on the length only through the wrap, exercised at every length in the bound)",
                "several producers or several consumers (documented as unsupported)", "executions that are not sequentially consistent (C07 argues from the memory orders)"],
    "assumptions": ["clang-14's IR is the meaning of ringbuf.c; vt/ir2c.py (validated by running the repository's ringbuftest logic against its plain-mode output, see DESIGN.md)",
                    "bufp and buf_len are immutable after ringbuf_init: their loads are fused into the neighbouring step (a store to them in agent code stops the translation)",
                    "idle steps only as a schedule suffix; all agents run to completion within K = 6 steps per operation (K checked exact by the witness)"],
    "rule": "distinct = discipline x agent pair x size bound.",
}


def q(name, disc, nput, nget, maxlen, prod="producer", cons="consumer", role="prove", mutate=None, opt="-O1", timeout=2400, extra=None, unwind=None):
    d = {"DISC": disc, "NPUT": nput, "NGET": nget, "MAXLEN": maxlen, "PRODUCER": prod, "CONSUMER": cons}
    d.update(extra or {})
    return Query(name, "c05.c", "h_ring", units=["librfn/ringbuf.c"], defines=d, unwind=unwind or max(nput, nget, maxlen) + 2,
                 unwindset="h_ring.1:%d" % ((nput + nget) * 6 + 4), gen=GEN[opt], backend="kissat", timeout=timeout, mem_gb=10, role=role, mutate=mutate, object_bits=12)


def queries(tier, kf):
    n, ml = (2, 3) if tier == "quick" else (3, 3)
    ni = n
    qs = [gens.selftest_query("c05-ir2c-selftest"),
          q("c05-free-%dx%d" % (n, n), 0, n, n, ml, timeout=7200),
          q("c05-producer-irq-%dx%d" % (ni, ni), 1, ni, ni, ml, timeout=7200),
          q("c05-consumer-irq-%dx%d" % (ni, ni), 2, ni, ni, ml, timeout=7200),
          q("c05-putchar-poll-len2-2x2", 0, 2, 2, 2, prod="producer_putchar", cons="consumer_poll", extra={"NO_FAIL_WITNESS": None}, timeout=7200),
          ]
    if tier == "thorough":
        qs.append(q("c05-putchar-poll-2x2", 0, 2, 2, 3, prod="producer_putchar", cons="consumer_poll", extra={"NO_FAIL_WITNESS": None}, timeout=7200))
        qs.append(q("c05-free-O2-2x2", 0, 2, 2, 3, opt="-O2", timeout=7200))
        qs.append(q("c05-free-len4-2x3", 0, 2, 3, 4, timeout=7200, extra={"LEN": 4, "NO_FAIL_WITNESS": None}))
    cans = [("publish-first", "\trb->bufp[old_writei] = d;\n\tatomic_signal_fence(memory_order_seq_cst);\n\tatomic_store(&rb->writei, writei);",
             "\tatomic_store(&rb->writei, writei);\n\tatomic_signal_fence(memory_order_seq_cst);\n\trb->bufp[old_writei] = d;"),
            ("wrap", "\tif (++writei >= rb->buf_len)\n\t\twritei -= rb->buf_len;", "\tif (++writei > rb->buf_len)\n\t\twritei -= rb->buf_len;"),

            ("store-at-new-index", "\trb->bufp[old_writei] = d;", "\trb->bufp[writei] = d;")]
    for nm, old, new in cans:
        qs.append(q("c05-canary-" + nm, 0, 2, 2, 3, role="canary", mutate=[("librfn/ringbuf.c", old, new)]))
    return qs
