#!/usr/bin/env python3
"""E2: clang-14 LLVM IR (textual, typed pointers) of the real librfn code -> C that cbmc executes symbolically.

Two output modes for a function:
  plain    IR function -> C function `NAME` (same arguments, pointers as char*), one `for(;;) switch(pc)` dispatch loop
           over the basic blocks (a single natural loop, so cbmc's unwinding bound is exact: one iteration per block
           executed).
  machine  call-free IR function -> `struct NAME_ctx` (every SSA value, every alloca) + `void NAME_step(struct NAME_ctx *)`:
           a step performs ONE access to shared memory (the one it stopped in front of) and then runs local
           computation up to - not including - the next shared access.  Atomic operations, fences and plain accesses
           to non-local memory are shared accesses; loads of fields declared immutable-after-init are fused.
Every shared access calls VT_ACCESS(addr, size, kind, order) first (kind: 0 load 1 store 2 rmw 3 cmpxchg 4 fence;
order: 0 plain, 1 relaxed(monotonic), 2 acquire, 3 release, 4 acq_rel, 5 seq_cst; bit 8 set = singlethread scope).
Memory stays real C memory (*(uint32_t *)p), so cbmc's pointer checks apply to the real objects.
"""
import re
import sys


class IRError(Exception):
    pass


# --------------------------------------------------------------------------- types
class Types:
    def __init__(self):
        self.structs = {}       # name -> (packed, [field types])

    def parse_def(self, line):
        m = re.match(r"(%[\w.\"]+) = type (<?)\{(.*)\}>?\s*$", line)
        if m:
            self.structs[m.group(1)] = (m.group(2) == "<", split_top(m.group(3)))
            return True
        m = re.match(r"(%[\w.\"]+) = type opaque", line)
        if m:
            self.structs[m.group(1)] = (False, [])
            return True
        return False

    def size_align(self, t):
        t = t.strip()
        if t.endswith("*"):
            return 8, 8
        m = re.fullmatch(r"i(\d+)", t)
        if m:
            b = max(1, (int(m.group(1)) + 7) // 8)
            return b, b
        if t in ("float",):
            return 4, 4
        if t in ("double",):
            return 8, 8
        m = re.fullmatch(r"\[(\d+) x (.*)\]", t)
        if m:
            s, a = self.size_align(m.group(2))
            return s * int(m.group(1)), a
        if t.startswith("%"):
            packed, fields = self.structs[t]
            return self.struct_layout(packed, fields)[0:2]
        if t.startswith("{") or t.startswith("<{"):
            packed = t.startswith("<")
            inner = t[2:-2] if packed else t[1:-1]
            return self.struct_layout(packed, split_top(inner))[0:2]
        raise IRError("type " + t)

    def struct_layout(self, packed, fields):
        off = 0
        al = 1
        offs = []
        for f in fields:
            s, a = self.size_align(f)
            if not packed:
                off = (off + a - 1) // a * a
                al = max(al, a)
            offs.append(off)
            off += s
        if not packed:
            off = (off + al - 1) // al * al
        return off, al, offs

    def field(self, t, idx):
        t = t.strip()
        if t.startswith("%"):
            packed, fields = self.structs[t]
        else:
            packed = t.startswith("<")
            fields = split_top(t[2:-2] if packed else t[1:-1])
        _, _, offs = self.struct_layout(packed, fields)
        return offs[idx], fields[idx]


def split_top(s):
    out, depth, cur = [], 0, ""
    for ch in s:
        if ch in "([{<":
            depth += 1
        elif ch in ")]}>":
            depth -= 1
        if ch == "," and depth == 0:
            out.append(cur.strip())
            cur = ""
        else:
            cur += ch
    if cur.strip():
        out.append(cur.strip())
    return out


def ctype(t):
    t = t.strip()
    if t.endswith("*"):
        return "char *"
    m = re.fullmatch(r"i(\d+)", t)
    if m:
        w = int(m.group(1))
        return "uint8_t" if w <= 8 else "uint16_t" if w <= 16 else "uint32_t" if w <= 32 else "uint64_t"
    raise IRError("no C type for " + t)


def width(t):
    m = re.fullmatch(r"i(\d+)", t.strip())
    return int(m.group(1)) if m else 64


ORD = {"": 0, "unordered": 1, "monotonic": 1, "acquire": 2, "release": 3, "acq_rel": 4, "seq_cst": 5}


# --------------------------------------------------------------------------- function translation
class Func:
    def __init__(self, name, rettype, params, blocks, order):
        self.name, self.rettype, self.params, self.blocks, self.order = name, rettype, params, blocks, order


def parse_module(text):
    types = Types()
    funcs = {}
    lines = text.split("\n")
    i = 0
    while i < len(lines):
        l = lines[i]
        if types.parse_def(l.strip()):
            i += 1
            continue
        m = re.match(r"define .*?([\w.%*\[\]{} <>]+?) @([\w.]+)\((.*)\)[^)]*\{\s*$", l)
        if m:
            ret = re.sub(r"\b(dso_local|internal|noundef|zeroext|signext|nonnull|hidden|noalias|local_unnamed_addr)\b", "", m.group(1)).strip()
            name = m.group(2)
            params = []
            for k, p in enumerate(split_top(m.group(3))):
                if p == "...":
                    continue
                mm = re.match(r"(.+?)((?: (?:noundef|nocapture|readonly|writeonly|nonnull|zeroext|signext|noalias|returned|readnone|align \d+|dereferenceable\(\d+\)|dereferenceable_or_null\(\d+\)))*)\s*(%[\w.]+)?$", p)
                params.append((mm.group(1).strip(), mm.group(3) or "%" + str(k)))
            blocks = {}
            order = []
            cur = "%entry0"
            # the entry block's implicit label is the next unnamed value number
            nparams_unnamed = sum(1 for _, n in params if re.fullmatch(r"%\d+", n))
            cur = "%" + str(nparams_unnamed)
            blocks[cur] = []
            order.append(cur)
            i += 1
            while not lines[i].startswith("}"):
                s = lines[i].strip()
                mm = re.match(r"^([\w.]+):", s)
                if mm:
                    cur = "%" + mm.group(1)
                    blocks[cur] = []
                    order.append(cur)
                elif s and not s.startswith(";"):
                    blocks[cur].append(s)
                i += 1
            funcs[name] = Func(name, ret, params, blocks, order)
        i += 1
    return types, funcs


def strip_meta(s):
    s = re.sub(r",\s*![\w.]+ ![\w.]+", "", s)
    s = re.sub(r",\s*align \d+", "", s)
    s = re.sub(r"\s+#\d+$", "", s)
    return s.strip()


class Emitter:
    def __init__(self, types, funcs, immutable=None, known_calls=None, immutable_offsets=None):
        self.types = types
        self.funcs = funcs
        self.immutable = immutable or {}    # struct type -> set(field idx)
        self.imm_off = immutable_offsets or {}   # function name -> {param index: set(byte offsets)}: fields that nobody writes after start
        self.known = known_calls or {}

    # ---- helpers
    def var(self, tok):
        return "v_" + re.sub(r"[^\w]", "_", tok[1:])

    def val(self, tok, t, ctx):
        tok = tok.strip()
        if tok.startswith("%"):
            return ctx + self.var(tok)
        if tok.startswith("@"):
            return "((char *)&%s)" % tok[1:]
        if tok in ("null", "zeroinitializer"):
            return "((char *)0)" if t.strip().endswith("*") else "0"
        if tok in ("undef", "poison"):
            return "((char *)0)" if t.strip().endswith("*") else "0"
        if tok == "true":
            return "1"
        if tok == "false":
            return "0"
        if re.fullmatch(r"-?\d+", tok):
            v = int(tok)
            w = width(t)
            if v < 0:
                v += 1 << w
            return "%dULL" % v if w > 32 else "%dU" % v
        if tok.startswith("getelementptr") or tok.startswith("bitcast"):
            return "((char *)0 /* constant expression dropped: %s */)" % tok.replace("*/", "")[:40]
        raise IRError("value " + tok)

    def signed(self, e, t):
        w = width(t)
        ct = {8: "int8_t", 16: "int16_t", 32: "int32_t", 64: "int64_t"}[8 if w <= 8 else 16 if w <= 16 else 32 if w <= 32 else 64]
        if w in (8, 16, 32, 64):
            return "((%s)(%s))" % (ct, e)
        # odd widths (i1): sign-extend manually
        return "((%s)((%s) << %d) >> %d)" % (ct, e, {"int8_t": 8, "int16_t": 16, "int32_t": 32, "int64_t": 64}[ct] - w, {"int8_t": 8, "int16_t": 16, "int32_t": 32, "int64_t": 64}[ct] - w)

    def mask(self, e, t):
        w = width(t)
        if w in (8, 16, 32, 64):
            return "(%s)(%s)" % (ctype(t), e)
        return "(%s)((%s) & %dU)" % (ctype(t), e, (1 << w) - 1)

    # ---- main
    def translate(self, name, mode, cname=None):
        f = self.funcs[name]
        cname = cname or name
        ctx = "c->" if mode == "machine" else ""
        decls = {}          # var -> ctype
        allocas = []
        local_ptr = set()   # SSA names that point into allocas
        body = []           # list of (block label, [c statements])  statement may be ("SPLIT",) marker
        blkid = {b: i for i, b in enumerate(f.order)}
        phis = {}           # block -> [(dst, type, [(val, pred)])]
        for b in f.order:
            for ins in f.blocks[b]:
                ins = strip_meta(ins)
                m = re.match(r"(%[\w.]+) = phi ([^\[]+?) (\[.*)", ins)
                if m:
                    inc = re.findall(r"\[\s*([^,\]]+),\s*(%[\w.]+)\s*\]", m.group(3))
                    phis.setdefault(b, []).append((m.group(1), m.group(2).strip(), inc))
                    decls[self.var(m.group(1))] = ctype(m.group(2))
        for pt, pn in f.params:
            decls[self.var(pn)] = ctype(pt)

        def edge(src, dst):
            """code for the transfer src -> dst: parallel phi copies, then jump"""
            out = []
            ps = phis.get(dst, [])
            tmp = []
            for d, t, inc in ps:
                for v, pred in inc:
                    if pred == src:
                        tmp.append((d, t, v))
            if len(tmp) > 1:
                for k, (d, t, v) in enumerate(tmp):
                    decls["phi_t%d" % k] = "uint64_t"
                    if t.strip().endswith("*"):
                        decls["phi_p%d" % k] = "char *"
                        out.append("%sphi_p%d = %s;" % (ctx, k, self.val(v, t, ctx)))
                    else:
                        out.append("%sphi_t%d = %s;" % (ctx, k, self.val(v, t, ctx)))
                for k, (d, t, v) in enumerate(tmp):
                    if t.strip().endswith("*"):
                        out.append("%s%s = %sphi_p%d;" % (ctx, self.var(d), ctx, k))
                    else:
                        out.append("%s%s = (%s)%sphi_t%d;" % (ctx, self.var(d), ctype(t), ctx, k))
            elif tmp:
                d, t, v = tmp[0]
                out.append("%s%s = %s;" % (ctx, self.var(d), self.val(v, t, ctx)))
            out.append(("GOTO", dst))
            return out

        def shared(ptr_tok):
            return ptr_tok not in local_ptr

        gep_field = {}      # ssa -> (struct type, field idx) for immutable detection
        base_off = {}       # ssa -> (param index, constant byte offset)
        for k, (pt, pn) in enumerate(f.params):
            base_off[pn] = (k, 0)
        imm_off = self.imm_off.get(name, {})

        def is_imm(p):
            if p in gep_field and gep_field[p][1] in self.immutable.get(gep_field[p][0], ()):
                return True
            return p in base_off and base_off[p][1] in imm_off.get(base_off[p][0], ())

        for b in f.order:
            st = []
            for raw in f.blocks[b]:
                ins = strip_meta(raw)
                if re.match(r"%[\w.]+ = phi ", ins):
                    continue
                m = re.match(r"(%[\w.]+) = (.*)", ins)
                dst, rhs = (m.group(1), m.group(2)) if m else (None, ins)
                op = rhs.split()[0]
                D = (ctx + self.var(dst)) if dst else None

                def decl(t):
                    decls[self.var(dst)] = ctype(t)

                if op == "alloca":
                    mm = re.match(r"alloca ([^,]+)", rhs)
                    size, _ = self.types.size_align(mm.group(1))
                    an = "al_%d" % len(allocas)
                    allocas.append((an, size))
                    decls[self.var(dst)] = "char *"
                    local_ptr.add(dst)
                    st.append("%s = (char *)%s%s;" % (D, ctx, an))
                elif op == "load":
                    mm = re.match(r"load (atomic )?(volatile )?(.+?), (.+?)\* (%[\w.]+|@[\w.]+)(?: (syncscope\(\"singlethread\"\) )?(\w+))?$", rhs)
                    if not mm:
                        raise IRError(ins)
                    atomic, _, t, _, p, ss, order = mm.groups()
                    decl(t)
                    P = self.val(p, t + "*", ctx)
                    imm = is_imm(p)
                    if (atomic or shared(p)) and not imm:
                        st.append(("SPLIT",))
                        st.append("VT_ACCESS(%s, %d, 0, %d);" % (P, self.types.size_align(t)[0], ORD[order or ""] if atomic else 0))
                    st.append("%s = *(%s *)%s;" % (D, ctype(t), P))
                    if t.endswith("*") and p in local_ptr:
                        pass
                elif op == "store":
                    mm = re.match(r"store (atomic )?(volatile )?(.+?) (\S+), (.+?)\* (%[\w.]+|@[\w.]+)(?: (syncscope\(\"singlethread\"\) )?(\w+))?$", rhs)
                    if not mm:
                        raise IRError(ins)
                    atomic, _, t, v, _, p, ss, order = mm.groups()
                    P = self.val(p, t + "*", ctx)
                    if is_imm(p):
                        raise IRError("store to a field declared immutable: " + ins)
                    if atomic or shared(p):
                        st.append(("SPLIT",))
                        st.append("VT_ACCESS(%s, %d, 1, %d);" % (P, self.types.size_align(t)[0], ORD[order or ""] if atomic else 0))
                    st.append("*(%s *)%s = %s;" % (ctype(t), P, self.val(v, t, ctx)))
                elif op == "getelementptr":
                    mm = re.match(r"getelementptr (inbounds )?(.+?), (.+?)\* (%[\w.]+|@[\w.]+), (.*)", rhs)
                    if not mm:
                        raise IRError(ins)
                    _, t, _, p, idxs = mm.groups()
                    decls[self.var(dst)] = "char *"
                    if p in local_ptr:
                        local_ptr.add(dst)
                    expr = self.val(p, t + "*", ctx)
                    cur = t.strip()
                    idxl = split_top(idxs)
                    terms = []
                    for k, ix in enumerate(idxl):
                        it, iv = ix.rsplit(" ", 1)
                        if k == 0:
                            s, _ = self.types.size_align(cur)
                            terms.append((iv, it, s))
                        elif cur.startswith("[") :
                            inner = re.fullmatch(r"\[(\d+) x (.*)\]", cur).group(2)
                            s, _ = self.types.size_align(inner)
                            terms.append((iv, it, s))
                            cur = inner
                        else:
                            off, ft = self.types.field(cur, int(iv))
                            if k == 1 and len(idxl) == 2 and idxl[0].endswith(" 0"):
                                gep_field[dst] = (cur, int(iv))
                            terms.append((str(off), "i64", 1))
                            cur = ft
                    if p in base_off and all(re.fullmatch(r"-?\d+", iv) for iv, _, _ in terms):
                        base_off[dst] = (base_off[p][0], base_off[p][1] + sum(int(iv) * s for iv, _, s in terms))
                    parts = []
                    for iv, it, s in terms:
                        if re.fullmatch(r"-?\d+", iv):
                            if int(iv) * s:
                                parts.append("%d" % (int(iv) * s))
                        else:
                            parts.append("(int64_t)%s * %d" % (self.signed(self.val(iv, it, ctx), it), s))
                    st.append("%s = %s%s;" % (D, expr, "".join(" + " + x for x in parts)))
                elif op in ("bitcast", "inttoptr", "ptrtoint"):
                    mm = re.match(r"%s (.+?) (%%[\w.]+|@[\w.]+|null) to (.+)" % op, rhs)
                    t1, v, t2 = mm.groups()
                    decl(t2)
                    if v in local_ptr:
                        local_ptr.add(dst)
                    if v in gep_field:
                        gep_field[dst] = gep_field[v]
                    if v in base_off and op == "bitcast":
                        base_off[dst] = base_off[v]
                    V = self.val(v, t1, ctx)
                    if op == "ptrtoint":
                        st.append("%s = (%s)(uintptr_t)%s;" % (D, ctype(t2), V))
                    elif op == "inttoptr":
                        st.append("%s = (char *)(uintptr_t)%s;" % (D, V))
                    else:
                        st.append("%s = %s;" % (D, V))
                elif op in ("add", "sub", "mul", "and", "or", "xor", "shl", "lshr", "ashr", "udiv", "urem", "sdiv", "srem"):
                    mm = re.match(r"%s (?:nuw |nsw |exact )*(i\d+) ([^,]+), (.+)" % op, rhs)
                    t, a, b2 = mm.groups()
                    decl(t)
                    A, B = self.val(a, t, ctx), self.val(b2, t, ctx)
                    W = "uint64_t" if width(t) > 32 else "uint32_t"
                    if op in ("sdiv", "srem", "ashr"):
                        c_op = {"sdiv": "/", "srem": "%", "ashr": ">>"}[op]
                        e = "%s %s %s" % (self.signed(A, t), c_op, self.signed(B, t) if op != "ashr" else B)
                    else:
                        c_op = {"add": "+", "sub": "-", "mul": "*", "and": "&", "or": "|", "xor": "^", "shl": "<<", "lshr": ">>", "udiv": "/", "urem": "%"}[op]
                        e = "(%s)%s %s (%s)%s" % (W, A, c_op, W, B)
                    st.append("%s = %s;" % (D, self.mask(e, t)))
                elif op == "icmp":
                    mm = re.match(r"icmp (\w+) (.+?) ([^,]+), (.+)", rhs)
                    pred, t, a, b2 = mm.groups()
                    decls[self.var(dst)] = "uint8_t"
                    A, B = self.val(a, t, ctx), self.val(b2, t, ctx)
                    c_op = {"eq": "==", "ne": "!=", "ugt": ">", "uge": ">=", "ult": "<", "ule": "<=", "sgt": ">", "sge": ">=", "slt": "<", "sle": "<="}[pred]
                    if t.strip().endswith("*"):
                        st.append("%s = (%s %s %s);" % (D, A, c_op, B))
                    elif pred[0] == "s":
                        st.append("%s = (%s %s %s);" % (D, self.signed(A, t), c_op, self.signed(B, t)))
                    else:
                        st.append("%s = ((%s)%s %s (%s)%s);" % (D, ctype(t), A, c_op, ctype(t), B))
                elif op == "select":
                    mm = re.match(r"select i1 ([^,]+), (.+?) ([^,]+), (.+?) (\S+)$", rhs)
                    cnd, t, a, _, b2 = mm.groups()
                    decl(t)
                    if a in local_ptr or b2 in local_ptr:
                        local_ptr.add(dst)
                    st.append("%s = %s ? %s : %s;" % (D, self.val(cnd, "i1", ctx), self.val(a, t, ctx), self.val(b2, t, ctx)))
                elif op in ("zext", "sext", "trunc"):
                    mm = re.match(r"%s (i\d+) (\S+) to (i\d+)" % op, rhs)
                    t1, v, t2 = mm.groups()
                    decl(t2)
                    V = self.val(v, t1, ctx)
                    if op == "sext":
                        st.append("%s = %s;" % (D, self.mask("(int64_t)" + self.signed(V, t1), t2)))
                    else:
                        st.append("%s = %s;" % (D, self.mask(V, t2)))
                elif op == "atomicrmw":
                    mm = re.match(r"atomicrmw (volatile )?(\w+) (.+?)\* (%[\w.]+|@[\w.]+), (i\d+) (\S+) (syncscope\(\"singlethread\"\) )?(\w+)", rhs)
                    _, rop, _, p, t, v, ss, order = mm.groups()
                    decl(t)
                    P = self.val(p, t + "*", ctx)
                    V = self.val(v, t, ctx)
                    st.append(("SPLIT",))
                    st.append("VT_ACCESS(%s, %d, 2, %d);" % (P, self.types.size_align(t)[0], ORD[order]))
                    st.append("%s = *(%s *)%s;" % (D, ctype(t), P))
                    ce = {"add": "%s + %s", "sub": "%s - %s", "and": "%s & %s", "or": "%s | %s", "xor": "%s ^ %s", "xchg": "%.0s%s"}[rop] % (D, V)
                    st.append("*(%s *)%s = %s;" % (ctype(t), P, self.mask(ce, t)))
                elif op == "cmpxchg":
                    mm = re.match(r"cmpxchg (weak )?(volatile )?(.+?)\* (%[\w.]+|@[\w.]+), (i\d+) (\S+), i\d+ (\S+) (syncscope\(\"singlethread\"\) )?(\w+) (\w+)", rhs)
                    weak, _, _, p, t, cmpv, newv, ss, so, fo = mm.groups()
                    decls[self.var(dst) + "_0"] = ctype(t)
                    decls[self.var(dst) + "_1"] = "uint8_t"
                    P = self.val(p, t + "*", ctx)
                    st.append(("SPLIT",))
                    st.append("VT_ACCESS(%s, %d, 3, %d);" % (P, self.types.size_align(t)[0], ORD[so]))
                    st.append("%s_0 = *(%s *)%s;" % (D, ctype(t), P))
                    spur = " && !VT_CAS_SPURIOUS()" if weak else ""
                    st.append("%s_1 = (%s_0 == %s)%s;" % (D, D, self.val(cmpv, t, ctx), spur))
                    st.append("if (%s_1) *(%s *)%s = %s;" % (D, ctype(t), P, self.val(newv, t, ctx)))
                elif op == "extractvalue":
                    mm = re.match(r"extractvalue \{ (i\d+), i1 \} (%[\w.]+), (\d)", rhs)
                    t, v, k = mm.groups()
                    decls[self.var(dst)] = ctype(t) if k == "0" else "uint8_t"
                    st.append("%s = %s%s_%s;" % (D, ctx, self.var(v), k))
                elif op == "fence":
                    mm = re.match(r"fence (syncscope\(\"singlethread\"\) )?(\w+)", rhs)
                    ss, order = mm.groups()
                    if not ss:
                        st.append(("SPLIT",))
                    st.append("VT_ACCESS((char *)0, 0, 4, %d);" % (ORD[order] | (256 if ss else 0)))
                elif op in ("call", "tail", "musttail", "notail"):
                    mm = re.match(r"(?:tail |musttail |notail )?call (.+?) @([\w.]+)\((.*)\)$", rhs)
                    if not mm:
                        raise IRError("indirect or unsupported call: " + ins)
                    rt, callee, args = mm.groups()
                    rt = re.sub(r"\b(noundef|zeroext|signext|nonnull|noalias)\b", "", rt).strip()
                    rt = re.sub(r"\(.*\)$", "", rt).strip()     # varargs prototype "i32 (i8*, ...)"
                    if callee.startswith("llvm.lifetime") or callee.startswith("llvm.dbg") or callee in ("llvm.assume", "llvm.experimental.noalias.scope.decl"):
                        continue
                    argl = []
                    for a in split_top(args):
                        a = re.sub(r"\b(noundef|zeroext|signext|nonnull|noalias|nocapture|readonly|writeonly|immarg|align \d+|dereferenceable\(\d+\))\b", "", a).strip()
                        a = re.sub(r"\s+", " ", a)
                        at, av = a.rsplit(" ", 1) if not a.endswith(")") else (a.split(" ", 1)[0], a.split(" ", 1)[1])
                        argl.append((at.strip(), av.strip()))
                    if callee == "vt_yield":      # an explicit step boundary between two operations of an agent
                        st.append(("SPLIT",))
                        continue
                    if callee == "__assert_fail":
                        st.append("VT_ASSERT_FAIL();")
                        continue
                    if callee.startswith("llvm.memset"):
                        st.append(("SPLIT",))
                        st.append("VT_ACCESS(%s, (unsigned)%s, 1, 0);" % (self.val(argl[0][1], "i8*", ctx), self.val(argl[2][1], argl[2][0], ctx)))
                        st.append("memset(%s, (int)%s, (size_t)%s);" % (self.val(argl[0][1], "i8*", ctx), self.val(argl[1][1], "i8", ctx), self.val(argl[2][1], argl[2][0], ctx)))
                        continue
                    if callee.startswith("llvm.memcpy"):
                        st.append("memcpy(%s, %s, (size_t)%s);" % (self.val(argl[0][1], "i8*", ctx), self.val(argl[1][1], "i8*", ctx), self.val(argl[2][1], argl[2][0], ctx)))
                        continue
                    cargs = ", ".join(self.val(av, at, ctx) for at, av in argl)
                    if callee in self.funcs and mode == "machine":
                        raise IRError("machine-mode function still contains a call to %s (not inlined)" % callee)
                    target = self.known.get(callee, callee)
                    if rt == "void":
                        st.append("%s(%s);" % (target, cargs))
                    else:
                        decl(rt)
                        cast = "(char *)" if rt.endswith("*") else "(%s)" % ctype(rt)
                        st.append("%s = %s%s(%s);" % (D, cast, target, cargs))
                elif op == "br":
                    mm = re.match(r"br i1 (\S+), label (%[\w.]+), label (%[\w.]+)", rhs)
                    if mm:
                        cnd, a, b2 = mm.groups()
                        st.append(("IF", self.val(cnd, "i1", ctx), edge(b, a), edge(b, b2)))
                    else:
                        mm = re.match(r"br label (%[\w.]+)", rhs)
                        st += edge(b, mm.group(1))
                elif op == "switch":
                    mm = re.match(r"switch (i\d+) (\S+), label (%[\w.]+) \[(.*)\]", rhs)
                    t, v, dflt, cases = mm.groups()
                    cs = re.findall(r"i\d+ (-?\d+), label (%[\w.]+)", cases)
                    st.append(("SWITCH", self.val(v, t, ctx), t, [(c, edge(b, l)) for c, l in cs], edge(b, dflt)))
                elif op == "ret":
                    mm = re.match(r"ret (.+?) (\S+)$", rhs)
                    if mm and mm.group(1) != "void":
                        st.append(("RET", self.val(mm.group(2), mm.group(1), ctx)))
                    else:
                        st.append(("RET", None))
                elif op == "unreachable":
                    st.append(("RET", None if f.rettype == "void" else "0"))
                else:
                    raise IRError("unsupported instruction: " + ins)
            body.append((b, st))

        # multi-line "switch ... [" in IR: clang prints cases on separate lines - handled by the caller joining lines
        return self.emit(f, cname, mode, decls, allocas, body, blkid)

    def emit(self, f, cname, mode, decls, allocas, body, blkid):
        out = []
        rett = "void" if f.rettype == "void" else ctype(f.rettype)
        nsplit = [0]
        if mode == "machine":
            out.append("struct %s_ctx {" % cname)
            out.append("\tint pc, done;")
            if rett != "void":
                out.append("\t%s ret;" % rett)
            for v, t in sorted(decls.items()):
                out.append("\t%s %s;" % (t, v))
            for an, size in allocas:
                out.append("\tuint64_t %s[%d];" % (an, (size + 7) // 8))
            out.append("};")
            out.append("static void %s_start(struct %s_ctx *c) { c->pc = 0; c->done = 0; }" % (cname, cname))
            out.append("static void %s_step(struct %s_ctx *c)" % (cname, cname))
            out.append("{")
            out.append("\tswitch (c->pc) {")
            out.append("\tcase 0: goto B%d;" % blkid[f.order[0]])
        else:
            params = ", ".join("%s %s" % (ctype(t), self.var(n)) for t, n in f.params)
            out.append("%s %s(%s)" % (rett, cname, params or "void"))
            out.append("{")
            pnames = {self.var(n) for _, n in f.params}
            for v, t in sorted(decls.items()):
                if v not in pnames:
                    out.append("\t%s %s = 0;" % (t, v))
            for an, size in allocas:
                out.append("\tuint64_t %s[%d];" % (an, (size + 7) // 8))
            out.append("\tint pc = %d;" % blkid[f.order[0]])
            out.append("\tfor (;;) switch (pc) {")

        def emit_edge(lst, ind):
            r = []
            for s in lst:
                if isinstance(s, tuple) and s[0] == "GOTO":
                    if mode == "machine":
                        r.append("%sgoto B%d;" % (ind, blkid[s[1]]))
                    else:
                        r.append("%spc = %d; continue;" % (ind, blkid[s[1]]))
                else:
                    r.append(ind + s)
            return r

        for b, st in body:
            if mode == "machine":
                out.append("\tB%d: ;" % blkid[b])
            else:
                out.append("\tcase %d:" % blkid[b])
            for s in st:
                if isinstance(s, str):
                    out.append("\t\t" + s)
                elif s[0] == "SPLIT":
                    if mode == "machine":
                        nsplit[0] += 1
                        out.append("\t\tc->pc = %d; return;" % nsplit[0])
                        out.append("\tcase %d: ;" % nsplit[0])
                elif s[0] == "GOTO":
                    out += emit_edge([s], "\t\t")
                elif s[0] == "IF":
                    out.append("\t\tif (%s) {" % s[1])
                    out += emit_edge(s[2], "\t\t\t")
                    out.append("\t\t} else {")
                    out += emit_edge(s[3], "\t\t\t")
                    out.append("\t\t}")
                elif s[0] == "SWITCH":
                    first = True
                    for cval, e in s[3]:
                        cv = int(cval)
                        if cv < 0:
                            cv += 1 << width(s[2])
                        out.append("\t\t%sif (%s == %dU) {" % ("" if first else "else ", s[1], cv))
                        out += emit_edge(e, "\t\t\t")
                        out.append("\t\t}")
                        first = False
                    out.append("\t\t%s{" % ("" if first else "else "))
                    out += emit_edge(s[4], "\t\t\t")
                    out.append("\t\t}")
                elif s[0] == "RET":
                    if mode == "machine":
                        if s[1] is not None and rett != "void":
                            out.append("\t\tc->ret = %s;" % s[1])
                        out.append("\t\tc->done = 1; c->pc = -1; return;")
                    else:
                        out.append("\t\treturn%s;" % ("" if s[1] is None or rett == "void" else " " + s[1]))
        if mode == "machine":
            out.append("\tdefault: return;")
            out.append("\t}")
            out.append("}")
            out.append("enum { %s_NSPLIT = %d };" % (cname, nsplit[0]))
        else:
            out.append("\tdefault: VT_ASSERT_FAIL();%s" % ("" if rett == "void" else " return 0;"))
            out.append("\t}")
            out.append("}")
        return "\n".join(out)


def join_switch_lines(text):
    """clang prints `switch` case lists over several lines; put each switch on one line."""
    out = []
    buf = None
    for l in text.split("\n"):
        if buf is not None:
            buf += " " + l.strip()
            if "]" in l:
                out.append(buf)
                buf = None
            continue
        if re.match(r"\s*switch ", l) and "]" not in l:
            buf = l.rstrip()
            continue
        out.append(l)
    return "\n".join(out)


def struct_table(types):
    out = []
    for name, (packed, fields) in sorted(types.structs.items()):
        if not fields:
            continue
        try:
            size, al, offs = types.struct_layout(packed, fields)
        except (IRError, KeyError):
            continue
        cn = re.sub(r"[^\w]", "_", name[1:])
        out.append("static const unsigned vt_layout_%s[] = { %d, %s };  /* sizeof, field offsets */" % (cn, size, ", ".join(map(str, offs))))
    return "\n".join(out)


def translate(ir_text, specs, immutable=None, known_calls=None, immutable_offsets=None):
    """specs: list of (ir function name, mode, c name)"""
    types, funcs = parse_module(join_switch_lines(ir_text))
    em = Emitter(types, funcs, immutable, known_calls, immutable_offsets)
    parts = ["/* generated by vt/ir2c.py from clang-14 LLVM IR - do not edit */", struct_table(types)]
    for name, mode, cname in specs:
        if name not in funcs:
            raise IRError("function %s not in the IR" % name)
        parts.append(em.translate(name, mode, cname))
    return "\n\n".join(parts) + "\n"


if __name__ == "__main__":
    text = open(sys.argv[1]).read()
    specs = []
    for a in sys.argv[2:]:
        n, m = a.split(":")
        specs.append((n, m, n + ("_ir" if m == "plain" else "")))
    sys.stdout.write(translate(text, specs))
