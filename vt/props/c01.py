from ..core import Query

U = ["librfn/list.c", "librfn/messageq.c", "librfn/util.c"]
TOL = [(r"arithmetic overflow on signed shl", "1 << receivep in messageq (signed-shift class, see C10)")]
META = {
    "level": "model_checking",
    "functions": ["fibre_scheduler_next", "fibre_run", "fibre_run_atomic", "fibre_kill", "fibre_timeout", "fibre_self", "fibre_init", "handle_atomic_runq",
                  "handle_timerq", "update_current_state", "get_next_task", "get_next_wakeup", "duetime_cmp", "list_*", "messageq_*", "cyclecmp32"],
    "units": ["librfn/fibre.c (included into the harness TU to reach the static kernel)", "librfn/list.c", "librfn/messageq.c", "librfn/util.c"],
    "bounds": {}, "outside": [], "assumptions": [], "rule": "",
}


OPS = ["run", "run_atomic", "kill", "next"]


SOPS = ["none", "run", "run_atomic", "kill", "timeout"]


def step(pid, op, nf, maxaq, nscript, groups, timeout=2400, mem=12, extra=None, role="prove", mutate=None, name=None, sop=None):
    d = {"K": 1, "NF": nf, "NSCRIPT": nscript, "STEP_OP": op, "MAXAQ": maxaq}
    if sop is not None:
        d["SCRIPT_OP"] = sop
        name = name or "%s-step-next-body-%s-nf%d-aq%d" % (pid, SOPS[sop], nf, maxaq)
    for g in groups:
        d[g] = None
    d.update(extra or {})
    uw = "check_queues.3:9,m_drain.0:9,h_step.5:9,handle_atomic_runq.0:%d" % (maxaq + 3)
    return Query(name or "%s-step-%s-nf%d-aq%d" % (pid, OPS[op], nf, maxaq), "c01.c", "h_step", units=U, defines=d, unwind=nf + 3, unwindset=uw,
                 tolerate=TOL, timeout=timeout, mem_gb=mem, object_bits=10, role=role, mutate=mutate)


def hist(name, k, nf, nscript, groups, timeout=1800, mem=10, extra=None):
    d = {"K": k, "NF": nf, "NSCRIPT": nscript}
    for g in groups:
        d[g] = None
    d.update(extra or {})
    return Query(name, "c01.c", "h_hist", units=U, defines=d, unwind=nf + 3, unwindset="check_queues.3:9,m_drain.0:9,handle_atomic_runq.0:%d" % (k + 2),
                 tolerate=TOL, timeout=timeout, mem_gb=mem, object_bits=10)


def queries(tier, kf):
    G = ["ORDER"]
    qs = [Query("c01-drain-order", "c01.c", "h_drain", units=U, defines={"K": 3, "NF": 3, "NSCRIPT": 1, "ORDER": None}, unwind=5,
                unwindset="handle_atomic_runq.0:4", tolerate=TOL, timeout=600, object_bits=10)]
    aq = 3 if tier == "quick" else 8
    for op in range(4):
        qs.append(step("c01", op, 3, aq, 1, G))
    qs.append(hist("c01-hist-k2", 2, 3, 1, G))
    return qs
