from ..core import Query

U = ["librfn/list.c"]
META = {
    "level": "model_checking",
    "functions": ["list_insert", "list_push", "list_insert_sorted", "list_extract", "list_remove", "list_contains", "list_iterate",
                  "list_iterator_next", "list_iterator_insert", "list_iterator_remove", "list_empty", "list_peek"],
    "units": ["librfn/list.c", "include/librfn/list.h"],
    "bounds": {"quick": "ANY well-formed state of two disjoint lists over a pool of 5 nodes (arbitrary membership and order, stale tail pointers when "
                        "empty, keys -3..3), one operation with arbitrary arguments on either list, iterator at any position 0..len (len = past the "
                        "end) - the inductive step; plus all 2-operation sequences (either list) from any such state over 3 nodes",
               "thorough": "as quick with 6 nodes for the step, 3-operation sequences over 3 nodes"},
    "outside": ["more than 6 nodes alive (the code's paths depend on first / middle / last / only, which 4 nodes already distinguish)",
                "inserting a node that is already a member (property scope)"],
    "assumptions": ["start states are taken up to renaming of pool nodes (list 0 = nodes 0..len0-1 in order, list 1 = nodes N-1 downwards): the code uses node identity only through pointer equality", "well-formedness invariant: acyclic, disjoint, tail = last node when non-empty, off-list nodes have next == NULL; re-established after every operation (asserted)"],
    "rule": "distinct = pool size x step count x start state class.",
}


def queries(tier, kf):
    if tier == "quick":
        cfg = [("step-n5", 5, 1, {"FIXED_WHICH": None}), ("seq2-n3", 3, 2, {})]
    else:
        cfg = [("step-n6", 6, 1, {"FIXED_WHICH": None}), ("seq3-n3", 3, 3, {})]
    qs = []
    for name, nn, ns, extra in cfg:
        qs.append(Query("c09-" + name, "c09.c", "h_steps", units=U, defines=dict({"NN": nn, "NSTEPS": ns}, **extra), unwind=nn + 2, timeout=2400, mem_gb=12))
    cans = [("itertail", "\tif (!curr)\n\t\titer->list->tail = node;", ""),
            ("pushtail", "\t} else {\n\t\tlist->tail = node;\n\t}\n\tlist->head = node;", "\t}\n\tlist->head = node;"),
            ("clearnext", "\t*(iter->prevnext) = curr->next;\n\tcurr->next = NULL;", "\t*(iter->prevnext) = curr->next;"),
            ("stable", "nodecmp(node, curr) >= 0;", "nodecmp(node, curr) > 0;"),
            ("removetail", "\tif (iter->list->tail == curr)\n\t\titer->list->tail = prev;", "")]
    for n, old, new in cans:
        qs.append(Query("c09-canary-" + n, "c09.c", "h_steps", units=U, defines={"NN": 4, "NSTEPS": 1, "FIXED_WHICH": None}, unwind=6, role="canary",
                        mutate=[("librfn/list.c", old, new)], timeout=1200))
    return qs
