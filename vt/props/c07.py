from .c05 import q as ring_q
from ..core import Query

META = {
    "level": "model_checking",
    "functions": ["ringbuf_put", "ringbuf_get", "ringbuf_empty (IR step machines)", "messageq_claim", "messageq_send", "messageq_receive", "messageq_release (source level, hand-off chain of whole handlers)"],
    "units": ["librfn/messageq.c compiled by goto-cc with harness/shim_hb/stdatomic.h (memory orders as written in the source)", "librfn/ringbuf.c via clang-14 LLVM IR at -O1 and -O2 (the memory order and atomicity of every access are read off the IR instruction)"],
    "bounds": {"quick": "message queue: sender A (claim, write, send) -> receiver (receive, read, release) -> sender B (claim of the same slot, write, send) -> receiver (receive, read) on a depth-1 queue, "
                        "three threads, symbolic payloads, no overlap between handlers (one interleaving; both payload edges). Ring buffer: the C05 executions (1 put + 1 get, length 2..3, every start index and byte value, free preemption) at -O1 with the vector-clock happens-before monitor on every shared access",
               "thorough": "additionally 1 + 2 and 2 + 1 operations and the -O2 IR"},
    "outside": ["the message-queue pattern (also the fibre wake-up / event path, which runs messageq.c on queues of pointers / events) is decided for ONE interleaving shape only: "
                "whole handlers handed from thread to thread (c07-mq-handoff); overlapping handlers, several messages in flight and depth > 1 are not explored for happens-before - the "
                "monitor over the C04 step machines gave no verdict within reach (1 sender + receiver: > 12 min, 7.5 GB; larger: out of memory at 10-12 GB). "
                "In that query the orders are those WRITTEN IN THE SOURCE (shim macros), not those in the compiler's IR, and messageq.c's own plain accesses to receivep are not reported (single receiver)",
                "executions that are not sequentially consistent: on the current tree every atomic is seq_cst, so race-freedom of all SC interleavings gives (C11 DRF-SC) that all "
                "executions of the bounded scenarios are SC and race-free; after a weakening mutation the check is a bug-finder over SC interleavings with happens-before from the actual orders",
                "long randomised real-thread runs under ThreadSanitizer (dynamic sampling - not part of this technique family, not done)",
                "the -O0 IR (no inlining at -O0, so the agents are not call-free)", "thread fences (none in the sources; compiler-only fences are ignored as they must be)"],
    "assumptions": ["clang-14 IR as the meaning of the sources; vt/vt_monitor.h implements release sequences / acquire joins as described in its header",
                    "bufp, buf_len (and basep, msg_len, queue_len) are written only before the concurrent phase; a store to them in agent code stops the translation"],
    "rule": "distinct = optimisation level x scenario.",
}


def queries(tier, kf):
    M = {"VT_MONITOR": None}
    M1 = {"VT_MONITOR": None, "NO_FAIL_WITNESS": None}
    from .. import gens
    qs = [gens.selftest_query("c07-ir2c-selftest"), ring_q("c07-ring-O1-1x1", 0, 1, 1, 3, extra=M1, timeout=7200, unwind=9)]
    # message-queue pattern at source level: hand-off chain of whole handlers, orders as written in the source (harness/c07_mq.c)
    qs.append(Query("c07-mq-handoff", "c07_mq.c", "h_mq_hb", unwind=6, cc_flags=["-I", "harness/shim_hb"], timeout=600, mem_gb=6,
                    tolerate=[(r"arithmetic overflow on signed shl", "1 << slot in messageq (signed-shift class, see C10)")]))
    if tier == "thorough":
        qs += [ring_q("c07-ring-O1-1x2", 0, 1, 2, 3, extra=M1, timeout=14400, unwind=9), ring_q("c07-ring-O1-2x1", 0, 2, 1, 3, extra=M, timeout=14400, unwind=9),
               ring_q("c07-ring-O2-1x1", 0, 1, 1, 3, extra=M1, opt="-O2", timeout=7200, unwind=9)]
    cans = [("relaxed-publish", "\tatomic_store(&rb->writei, writei);\n\treturn true;", "\tatomic_store_explicit(&rb->writei, writei, memory_order_relaxed);\n\treturn true;")]
    qs.append(Query("c07-canary-mq-relaxed-release", "c07_mq.c", "h_mq_hb", unwind=6, cc_flags=["-I", "harness/shim_hb"], timeout=600, mem_gb=6, role="canary",
                    mutate=[("librfn/messageq.c", "\tatomic_fetch_add(&mq->num_free, 1);\n}", "\tatomic_fetch_add_explicit(&mq->num_free, 1, memory_order_relaxed);\n}")],
                    tolerate=[(r"arithmetic overflow on signed shl", "1 << slot in messageq (signed-shift class, see C10)")]))
    for n, old, new in cans:
        qs.append(ring_q("c07-canary-" + n, 0, 1, 1, 3, extra=M1, role="canary", mutate=[("librfn/ringbuf.c", old, new)], timeout=7200, unwind=9))
    return qs
