/* C06 (and the interrupt part of C03): interrupt-context wake-ups and fibre events are never lost or duplicated.
 * The REAL fibre.c, messageq.c, list.c and util.c are compiled into this TU with the shim <stdatomic.h> (harness/shim):
 * before every atomic operation the main context executes, vt_hook() may run one interrupt handler - the real
 * fibre_run_atomic(f) for a symbolic f, or fibre_eventq_claim + write + fibre_eventq_send - as a nested call.
 * Handlers are not themselves interrupted here: under run-to-completion semantics the main context only ever observes
 * the queue after all nested handlers have finished, which is C04's interrupt-discipline result (composition).
 * Scenario: an event-handling fibre, a yielding fibre and a sleeping fibre (real protothread bodies), NPASS scheduler
 * passes with interrupts, then passes until idle with interrupts off. */
#include "vt.h"
#include "librfn/util.c"
#include "librfn/list.c"
#include "librfn/messageq.c"
#include "librfn/fibre.c"

#ifndef NIRQ
#define NIRQ 2
#endif
#ifndef NPASS
#define NPASS 2
#endif
#ifndef NDRAIN
#define NDRAIN 4
#endif
#define HOOKS 40
struct vt_in { uint8_t fire[HOOKS]; uint8_t kind[NIRQ], target[NIRQ]; uint8_t dt[NPASS + NDRAIN]; uint8_t nyield; uint8_t ext_run; uint8_t kill_at, kill_who; };
#include "vt_in.h"

enum { F_EVT, F_YIELD, F_SLEEP, NFIB };
static fibre_eventq_t evq; static uint16_t evbuf[2];
static fibre_t fy, fs;
static fibre_t *fp(int i) { return i == F_EVT ? &evq.fibre : i == F_YIELD ? &fy : &fs; }

/* ghost */
static bool pending[NFIB];			/* an accepted wake-up that has not yet led to a dispatch */
static unsigned entries[NFIB];
static uint16_t sent_seq[NIRQ + 2]; static unsigned nsent, nrecvd;	/* nsent: events receivable so far (sent, and so is everything claimed before) */
static unsigned yields_left;
static bool irq_on; static unsigned nhook, nirq;
static bool accepted_in_call, evt_killed;

static int evt_body(fibre_t *f)
{
	uint16_t *e;
	pending[F_EVT] = false; entries[F_EVT]++;
	PT_BEGIN_FIBRE(f);
	while (1) {
		PT_WAIT_UNTIL((e = fibre_eventq_receive(&evq)) != NULL);
		VT_ASSERT(nrecvd < nsent);			/* nothing invented, nothing twice */
		VT_ASSERT(*e == sent_seq[nrecvd]);		/* intact and in send order */
		nrecvd++;
		fibre_eventq_release(&evq, e);
	}
	PT_END();
}
static int yield_body(fibre_t *f)
{
	pending[F_YIELD] = false; entries[F_YIELD]++;
	PT_BEGIN_FIBRE(f);
	while (1) {
		if (yields_left) { yields_left--; PT_YIELD(); }
		else PT_WAIT();
	}
	PT_END();
}
static int sleep_body(fibre_t *f)
{
	pending[F_SLEEP] = false; entries[F_SLEEP]++;
	PT_BEGIN_FIBRE(f);
	while (1) {
		PT_WAIT_UNTIL(fibre_timeout(kernel.now + 3));	/* re-armed from the current time on every wake-up that finds it unexpired */
		PT_WAIT();
	}
	PT_END();
}

bool vt_cas_spurious(void) { return false; }

/* events in CLAIM order (that is the order the queue delivers them in); an event becomes receivable once it and all
 * events claimed before it have been sent - the API allows sends to be reordered among claimed messages */
static uint16_t *held_claim; static unsigned held_idx; static bool sentflag[NIRQ + 2]; static unsigned nclaimed;
static void note_sent(unsigned idx, bool ok)
{
	sentflag[idx] = true;
	nsent = 0;
	for (unsigned i = 0; i < NIRQ + 2; i++) { if (i < nclaimed && sentflag[i]) nsent = i + 1; else break; }
	if (ok) { pending[F_EVT] = true; accepted_in_call = true; }
}
static void irq_handler(unsigned k)
{
	unsigned kind = in.kind[k] & 3;
	if (kind == 1) {			/* claim, write, send */
		uint16_t *e = fibre_eventq_claim(&evq);
		if (e) {
			unsigned idx = nclaimed++;
			*e = (uint16_t)(0x100 + idx); sent_seq[idx] = (uint16_t)(0x100 + idx);
			note_sent(idx, fibre_eventq_send(&evq, e));
		}
	} else if (kind == 2 && !held_claim) {	/* claim two, send only the SECOND (the first stays claimed, to be sent by a later handler) */
		uint16_t *e1 = fibre_eventq_claim(&evq);
		if (e1) {
			unsigned i1 = nclaimed++;
			*e1 = (uint16_t)(0x100 + i1); sent_seq[i1] = (uint16_t)(0x100 + i1);
			held_claim = e1; held_idx = i1;
			uint16_t *e2 = fibre_eventq_claim(&evq);
			if (e2) {
				unsigned i2 = nclaimed++;
				*e2 = (uint16_t)(0x100 + i2); sent_seq[i2] = (uint16_t)(0x100 + i2);
				note_sent(i2, fibre_eventq_send(&evq, e2));
			}
		}
	} else if (kind == 3 && held_claim) {	/* send the outstanding earlier claim */
		uint16_t *e = held_claim; held_claim = 0;
		note_sent(held_idx, fibre_eventq_send(&evq, e));
	} else {
		int t = in.target[k] % NFIB;
		if (fibre_run_atomic(fp(t))) { pending[t] = true; accepted_in_call = true; }
	}
}

void vt_hook(void)
{
	unsigned i = nhook++;
	if (!irq_on || i >= HOOKS || nirq >= NIRQ || !(in.fire[i] & 1)) return;
	irq_on = false;				/* handlers are not interrupted (see header) */
	irq_handler(nirq++);
	irq_on = true;
}

static void queues_well_formed(void)
{
	/* both scheduler queues: finite, only fibre links, no fibre on both, tail is the last node, off-queue links cleared */
	bool onr[NFIB], ont[NFIB];
	for (int i = 0; i < NFIB; i++) onr[i] = ont[i] = false;
	list_node_t *n = kernel.runq.head, *last = 0;
	for (int k = 0; k < NFIB + 1; k++) if (n) {
		int id = n == &evq.fibre.link ? F_EVT : n == &fy.link ? F_YIELD : n == &fs.link ? F_SLEEP : -1;
		VT_ASSERT(id >= 0 && !onr[id]); onr[id] = true; last = n; n = n->next;
	}
	VT_ASSERT(n == 0);
	if (kernel.runq.head) VT_ASSERT(kernel.runq.tail == last);
	n = kernel.timerq.head; last = 0;
	for (int k = 0; k < NFIB + 1; k++) if (n) {
		int id = n == &evq.fibre.link ? F_EVT : n == &fy.link ? F_YIELD : n == &fs.link ? F_SLEEP : -1;
		VT_ASSERT(id >= 0 && !ont[id] && !onr[id]); ont[id] = true; last = n; n = n->next;
	}
	VT_ASSERT(n == 0);
	if (kernel.timerq.head) VT_ASSERT(kernel.timerq.tail == last);
	for (int i = 0; i < NFIB; i++) if (!onr[i] && !ont[i]) VT_ASSERT(fp(i)->link.next == 0);
}

void h_irq(void)
{
	VT_LOAD();
	fibre_eventq_init(&evq, evt_body, evbuf, sizeof(evbuf), sizeof(evbuf[0]));
	fibre_init(&fy, yield_body); fibre_init(&fs, sleep_body);
	__CPROVER_assume(in.nyield <= 2);
#ifdef EVENTS_OUT_OF_ORDER	/* scenario: the first handler claims two events and sends the second, the second handler sends the first */
	__CPROVER_assume((in.kind[0] & 3) == 2 && (in.kind[NIRQ - 1] & 3) == 3 && in.kill_at == 0 && !(in.ext_run & 1));
#endif
	yields_left = in.nyield;
	fibre_run(&evq.fibre); fibre_run(&fy); fibre_run(&fs);
	uint32_t t = 0xfffffff0u;				/* across the 32-bit wrap for good measure */
	irq_on = true;
	for (unsigned p = 0; p < NPASS; p++) {
		__CPROVER_assume(in.dt[p] <= 4);
		t += in.dt[p];
		accepted_in_call = false;
		if ((in.ext_run & 1) && p == 1) { fibre_run(&fy); }			/* main-context calls are interruptible too */
		if (in.kill_at == p + 1) {	/* a later fibre_kill withdraws the request (not interrupted here: which side of the kill's drain a
						 * concurrent request falls on is not observable through the API) */
			int w = in.kill_who % NFIB; irq_on = false; (void)fibre_kill(fp(w)); pending[w] = false; irq_on = true;
			if (w == F_EVT) evt_killed = true;	/* its wake-up was withdrawn: events may legitimately stay queued */
		}
		uint32_t wake = fibre_scheduler_next(t);
		irq_on = false;
		/* C03: a request that completed before the scheduler's final check and is still undrained, or any runnable
		 * fibre, means "do not sleep" */
		if (!messageq_empty(&kernel.atomic_runq) || !list_empty(&kernel.runq)) VT_ASSERT(wake == t);
		else if (list_empty(&kernel.timerq)) VT_ASSERT(wake == t + FIBRE_UNBOUNDED_SLEEP || (kernel.current && kernel.state == FIBRE_STATE_YIELDED && wake == t));
		queues_well_formed();
		irq_on = true;
	}
	irq_on = false;						/* nobody schedules after the last interrupt, so stop interrupting */
	unsigned fired = nirq;
	bool idle = false;
	for (unsigned p = 0; p < NDRAIN; p++) {
		__CPROVER_assume(in.dt[NPASS + p] <= 4);
		t += in.dt[NPASS + p];
		(void)fibre_scheduler_next(t);
		queues_well_formed();
		if (!fibre_self() && messageq_empty(&kernel.atomic_runq) && list_empty(&kernel.runq)) { idle = true; break; }
	}
	if (idle) {
		for (int i = 0; i < NFIB; i++) VT_ASSERT(!pending[i]);	/* every accepted wake-up led to a dispatch without further stimulus */
		if (!evt_killed) VT_ASSERT(nrecvd == nsent);		/* every event sent was received (exactly once and in order: asserted in the body) */
	}
	VT_WITNESS(idle && fired == NIRQ && nrecvd >= 1);
#ifdef EVENTS_OUT_OF_ORDER
	VT_WITNESS(idle && fired == NIRQ && nrecvd == 2);	/* both events delivered although they were sent in reverse claim order */
#else
	VT_WITNESS(idle && fired == NIRQ && nsent == 0 && entries[F_SLEEP] >= 2);
#endif
}
