"""Registry of source generators, so that a replay can regenerate exactly the file a query was built from."""
import os


def c08_gen(tier, seed):
    from . import ptgen

    def gen(root, workdir):
        cfg = c08_cfg(tier)
        progs = ptgen.batch(seed, cfg["count"], cfg["size"], cfg["depth"], cfg["child_depth"], cfg["tape"], True)
        path = os.path.join(workdir, "c08_gen.c")
        # pids are renumbered per program in emit; maxinv per program is computed in the props module, here use the max
        mi = max(ptgen.bounds(p, cfg["tape"])[0] for p in progs) + 2
        ptgen.write_batch(path, progs, cfg["tape"], mi)
        return [path]
    gen.vt_name = "c08:%s:%d" % (tier, seed)
    return gen


def c08_cfg(tier):
    if tier == "quick":
        return dict(count=14, size=5, depth=2, child_depth=2, tape=5)
    return dict(count=60, size=7, depth=3, child_depth=2, tape=8)


def run(name, root, workdir):
    kind, *rest = name.split(":")
    if kind == "c08":
        return c08_gen(rest[0], int(rest[1]))(root, workdir)
    raise ValueError(name)
