from ..core import Query
from .c14 import TOL

U = ["librfn/wavheader.c", "librfn/pack.c"]
META = {
    "level": "model_checking",
    "functions": ["rf_wavheader_init", "rf_wavheader_set_num_frames", "rf_wavheader_validate", "rf_wavheader_get_format", "rf_wavheader_encode",
                  "rf_wavheader_decode", "rf_pack_*/rf_unpack_* as used"],
    "units": ["librfn/wavheader.c", "librfn/pack.c"],
    "bounds": {"quick": "A (init first): all three formats, channels 1..65535, rate and frames any value for which block alignment, byte rate, data "
                        "size and chunk size fit their fields (all symbolic at once, kissat), every prior content of the structure, one or two "
                        "set_num_frames calls. B (decode first): every byte string of declared length 44..72, one query per length",
               "thorough": "as quick; B up to declared length 96"},
    "outside": ["byte_rate in [2^31, 2^32): rf_wavheader_init computes it in int (would be signed overflow in the source); stated, not reported",
                "sizes not fitting 32 bits (property scope)", "byte strings longer than the stated length"],
    "assumptions": ["malloc does not fail (harness)"],
    "rule": "distinct = harness entry x declared length.",
}


def queries(tier, kf):
    mb = 72 if tier == "quick" else 96
    qs = [Query("c13-init-arith-%d" % k, "c13.c", "h_init", units=U, defines={"MAXB": 72, "ARITH_ONLY": None, "AR_PART": k}, unwind=74,
                tolerate=TOL, backend="kissat", timeout=900, mem_gb=8,
                note="size arithmetic over the full range: channels 1..65535, any rate/frames within 32-bit size limits; assertion group %d of 4" % k)
          for k in (1, 2, 3, 4)] + [
          Query("c13-init-roundtrip", "c13.c", "h_init", units=U, defines={"MAXB": 72, "SMALL_ARITH": None}, unwind=74, tolerate=TOL,
                timeout=900, mem_gb=8, note="validate / encode / decode round trip over every prior content; magnitudes restricted (channels<=8, rate,frames<=2^20)")]
    for sz in range(44, mb + 1):
        qs.append(Query("c13-decode-first-len%d" % sz, "c13.c", "h_decode_first", units=U, defines={"MAXB": mb, "SZ": sz}, unwind=mb + 2,
                        tolerate=TOL, timeout=900, mem_gb=6))
    cans = [("chunksize", "wh->chunk_size += num_frames * wh->block_align;", "wh->chunk_size += num_frames * wh->num_channels;", "h_init", 72, "kissat", {"ARITH_ONLY": None, "AR_PART": 4}),
            ("factsize", "rf_pack_u32le(&pack, wh->fact_chunk_size);", "rf_pack_u32le(&pack, 4);", "h_decode_first", 58, "minisat", {}),
            ("bits", "wh->bits_per_sample = bytes_per_sample * 8;", "wh->bits_per_sample = 16;", "h_init", 72, "kissat", {"ARITH_ONLY": None, "AR_PART": 1})]
    for n, old, new, entry, sz, be, dx in cans:
        qs.append(Query("c13-canary-" + n, "c13.c", entry, units=U, defines=dict({"MAXB": 72, "SZ": sz}, **dx), unwind=74, tolerate=TOL, role="canary",
                        backend=be, mutate=[("librfn/wavheader.c", old, new)], timeout=900, mem_gb=6))
    return qs
