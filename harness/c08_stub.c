/* C08: the programs are generated per run by vt/ptgen.py (see vt/gens.py); this translation unit is intentionally empty. */
typedef int c08_stub_t;
