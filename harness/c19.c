/* C19: rotary encoder - one inductive step over the COMPLETE decoder state.
 * Real code: librfn/rotenc.c (linked), rotenc_count (inline, rotenc.h).
 * Ghost state: P = true position in quarter steps, L = position latched the last time the
 * encoder rested at the detent state 0.  The decoder is a finite machine, so one step from an
 * arbitrary state related to (P, L) by the representation invariant covers histories of any length;
 * h_base checks that ROTENC_VAR_INIT is the representation of P = L = 0. */
#include "vt.h"
#include "librfn/rotenc.h"
struct vt_in { int32_t P, L; uint8_t last, s; };
#include "vt_in.h"

static int gray_pos(uint8_t s) { return s == 0 ? 0 : s == 1 ? 1 : s == 3 ? 2 : 3; } /* clockwise cycle 0,1,3,2 */

static void concretise(rotenc_t *r, int32_t P, int32_t L, uint8_t last)
{
	memset(r, 0, sizeof(*r));
	r->last_state = last;
	r->internal_count = (uint16_t)P;
	r->count = (uint16_t)L >> 2;	/* truncated to whatever width the field has */
}

void h_step(void)
{
	VT_LOAD();
	int32_t P = in.P, L = in.L;
	__CPROVER_assume(P > -(1 << 30) && P < (1 << 30) && L > -(1 << 30) && L < (1 << 30));
	__CPROVER_assume(in.last < 4 && in.s < 4);
	/* L was latched at a detent: the detent state is state 0, reached only at positions = 0 mod 4 while
	 * the sequence is valid; after two-bit jumps the phase may differ, so L is otherwise arbitrary */
#ifdef VALID_ONLY   /* additional invariant that holds while no two-bit jump has happened */
	__CPROVER_assume(gray_pos(in.last) == (P & 3));
	__CPROVER_assume((L & 3) == 0 && P - L > -4 && P - L < 4);
	{ int d0 = (gray_pos(in.s) - gray_pos(in.last)) & 3; __CPROVER_assume(d0 != 2); }
#endif
	rotenc_t r;
	concretise(&r, P, L, in.last);
	/* readings before the step already reflect L (induction hypothesis as an API-level statement) */
	VT_ASSERT(rotenc_count(&r) == (uint8_t)((uint16_t)L >> 2));

	int d = (gray_pos(in.s) - gray_pos(in.last)) & 3;
	int32_t P2 = P + (d == 1 ? 1 : d == 3 ? -1 : 0);	/* +1 clockwise, -1 anticlockwise, else unchanged */
	int32_t L2 = (in.s == 0) ? P2 : L;			/* latch at the detent state */
	rotenc_decode(&r, in.s);

	rotenc_t e;
	concretise(&e, P2, L2, in.s);
	VT_ASSERT(r.internal_count == e.internal_count);	/* position changes by exactly +1 / -1 / 0 */
	VT_ASSERT(r.last_state == in.s);
	VT_ASSERT(r.count == e.count);				/* invariant re-established */
	VT_ASSERT(rotenc_count(&r) == (uint8_t)((L2 >> 2) & 0xff));	/* whole clicks mod 256 as of the last detent */
#ifdef KF_C19_COUNT14
	/* known finding excluded: reading count14 while the live position is in a different 256-click
	 * block from the latched one */
	if ((((uint16_t)P2 >> 2) & 0x3f00) == (((uint16_t)L2 >> 2) & 0x3f00))
#endif
#ifdef ONLY_KF_C19_COUNT14
	__CPROVER_assume((((uint16_t)P2 >> 2) & 0x3f00) != (((uint16_t)L2 >> 2) & 0x3f00));
#endif
	VT_ASSERT(rotenc_count14(&r) == (uint16_t)((L2 >> 2) & 0x3fff));	/* same latched position mod 2^14 */
	VT_ASSERT((rotenc_count14(&r) & 0xff) == rotenc_count(&r));		/* the readings agree in their low 8 bits */
#ifdef VALID_ONLY
	VT_ASSERT((L2 & 3) == 0 && P2 - L2 > -4 && P2 - L2 < 4 && gray_pos(in.s) == (P2 & 3));	/* within one click */
	{ int32_t clicks = L2 >> 2; int32_t truepos4 = P2;	/* |true - reading*4| < 4 quarter steps */
	  VT_ASSERT(truepos4 - clicks * 4 > -4 && truepos4 - clicks * 4 < 4); }
	VT_WITNESS(P == 1024 && in.s == 2 && in.last == 0);	/* the 256-click boundary, anticlockwise */
#else
	VT_WITNESS(d == 2 && in.s == 0);			/* an invalid two-bit jump landing on the detent */
#endif
}

void h_base(void)
{
	VT_LOAD();
	rotenc_t r = ROTENC_VAR_INIT, e;
	concretise(&e, 0, 0, 0);
	VT_ASSERT(r.last_state == e.last_state && r.count == e.count && r.internal_count == e.internal_count);
	VT_ASSERT(rotenc_count(&r) == 0 && rotenc_count14(&r) == 0);
	VT_WITNESS(in.s == 0);
}

/* bounded history from reset: K symbolic inputs, every prefix checked against the ghost (catches an
 * invariant that is too weak or too strong) */
#ifndef K
#define K 12
#endif
void h_hist(void)
{
	VT_LOAD();
	rotenc_t r = ROTENC_VAR_INIT;
	int32_t P = 0, L = 0; uint8_t last = 0;
	uint32_t seq = (uint32_t)in.P;		/* 2 bits per step, K <= 16 */
	for (int i = 0; i < K; i++) {
		uint8_t s = (seq >> (2 * i)) & 3;
		int d = (gray_pos(s) - gray_pos(last)) & 3;
		P += (d == 1 ? 1 : d == 3 ? -1 : 0);
		if (s == 0) L = P;
		last = s;
		rotenc_decode(&r, s);
		VT_ASSERT(rotenc_count(&r) == (uint8_t)((L >> 2) & 0xff));
		VT_ASSERT(rotenc_count14(&r) == (uint16_t)((L >> 2) & 0x3fff));
	}
	VT_WITNESS(P == -8 && L == -8);
}
