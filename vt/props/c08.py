import os

from .. import gens, ptgen
from ..core import Query

META = {
    "level": "model_checking",
    "functions": ["PT_BEGIN", "PT_END", "PT_INIT", "PT_YIELD", "PT_WAIT", "PT_WAIT_UNTIL", "PT_EXIT", "PT_EXIT_ON", "PT_FAIL", "PT_FAIL_ON",
                  "PT_SPAWN", "PT_CHILD_OK", "PT_SPAWN_AND_CHECK", "PT_CALL"],
    "units": ["include/librfn/protothreads.h (the macros, expanded in generated protothread bodies)"],
    "bounds": {"quick": "10 hand-picked + 14 generated programs (statement count <= 5, nesting <= 2, for-limits <= 3, children to depth 2), "
                        "each for EVERY tape of 5 condition bits; invoked until exit",
               "thorough": "10 hand-picked + 30 generated programs (statement count <= 6, nesting <= 3), every tape of 6 condition bits"},
    "outside": ["programs outside the generated set - the quantifier over programs is sampled by a grammar-driven generator (program text cannot be a solver "
                "variable: the macros work through __LINE__ and switch); what the solver covers exhaustively is every data-dependent path of each program",
                "non-persistent locals across blocking points, re-invocation after exit without PT_INIT, several blocking macros on one line (property scope)"],
    "assumptions": ["the direct-style twin emitted from the same AST by vt/ptgen.py is the meaning of 'one sequential program cut at its blocking points'",
                    "loop and invocation bounds are computed from the AST (tape-limited) and confirmed by unwinding assertions"],
    "rule": "one query per generated program; distinct = distinct AST.",
}


def queries(tier, kf):
    seed = int(os.environ.get("VERIF_SEED", "0") or 0)
    cfg = gens.c08_cfg(tier)
    progs = ptgen.batch(seed, cfg["count"], cfg["size"], cfg["depth"], cfg["child_depth"], cfg["tape"], True)
    mi = max(ptgen.bounds(p, cfg["tape"])[0] for p in progs) + 2
    g = gens.c08_gen(tier, seed)
    qs = []
    byid = {p.pid: p for p in progs}
    for p in progs:
        qs.append(Query("c08-p%d" % p.pid, "c08_stub.c", "h_p%d" % p.pid, gen=g, unwind=p.inner,
                        unwindset="h_p%d.0:%d,h_p%d.1:98" % (p.pid, p.maxinv + 1, p.pid), timeout=900, mem_gb=8,
                        note="top=%r children=%r" % (p.top, p.children)))
    # canaries on the macro header
    cans = [("waituntil-label", "\t\t*missing_PT_BEGIN = __LINE__;                                  \\\n\t        /* FALLTHRU */                                              \\\n\tcase __LINE__:                                                         \\\n\t\tif (!(c))                                                      \\\n\t\t\treturn PT_WAITING;",
             "\t\t*missing_PT_BEGIN = __LINE__;                                  \\\n\t\tif (!(c))                                                      \\\n\t\t\treturn PT_WAITING;                                     \\\n\tcase __LINE__:                                                         \\\n\t\t;", 1),
            ("spawn-init", "\t\tPT_INIT(child);                                                \\\n\t\t*missing_PT_BEGIN = __LINE__;                                  \\\n\t        /* FALLTHRU */                                                 \\\n\tcase __LINE__:                                                         \\\n\t\tpt_spawn_res = (thread);",
             "\t\t*missing_PT_BEGIN = __LINE__;                                  \\\n\t        /* FALLTHRU */                                                 \\\n\tcase __LINE__:                                                         \\\n\t\tPT_INIT(child);                                                \\\n\t\tpt_spawn_res = (thread);", 4),
            ("spawn-relay", "if (pt_spawn_res < PT_EXITED)", "if (pt_spawn_res <= PT_EXITED)", 4),
            ("childok", "#define PT_CHILD_OK() (pt_spawn_res != PT_FAILED)", "#define PT_CHILD_OK() (pt_spawn_res == PT_FAILED)", 4)]
    for n, old, new, pid in cans:
        qs.append(Query("c08-canary-" + n, "c08_stub.c", "h_p%d" % pid, gen=g, unwind=byid[pid].inner,
                        unwindset="h_p%d.0:%d,h_p%d.1:98" % (pid, byid[pid].maxinv + 1, pid), role="canary",
                        mutate=[("include/librfn/protothreads.h", old, new)], timeout=900, mem_gb=6))
    return qs
