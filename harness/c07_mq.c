/* C07, message-queue pattern (also the fibre wake-up / event path, which runs this code on queues of pointers/events):
 * the REAL librfn/messageq.c compiled with harness/shim_hb/<stdatomic.h>, so that every atomic operation reports the
 * memory order written in the source to the happens-before monitor.  Scenario: a hand-off chain of WHOLE handlers on a
 * depth-1 queue, each by a different thread -
 *     sender A: claim, write payload, send   ->   receiver: receive, read payload, release   ->
 *     sender B: claim (gets the same slot), write payload, send   ->   receiver: receive, read payload
 * There is no schedule to search: this one sequentially consistent interleaving already contains both payload edges
 * (publish: A's write before the receiver's read; slot release: the receiver's read before B's write), and whether
 * they are ordered by happens-before depends only on the orders of the queue's own atomics.  Payloads are symbolic. */
#include "vt.h"
#include <stdlib.h>
#include "librfn/messageq.h"
struct vt_in { uint16_t p0, p1; };
#include "vt_in.h"
static messageq_t mq; static uint16_t *storage;
#define VT_NAG 3
#define VT_NLOC 4
static int vt_cur;
static int vt_loc_of(char *addr, unsigned size)
{
	(void)size;
	if (addr == (char *)storage) return 0;			/* the one message buffer */
	if (addr == (char *)&mq.num_free) return 1;
	if (addr == (char *)&mq.sendp) return 2;
	if (addr == (char *)&mq.full_flags) return 3;
	return -1;
}
#include "vt_monitor.h"
#include "librfn/messageq.c"
enum { A = 0, RECV = 1, B = 2 };

void h_mq_hb(void)
{
	VT_LOAD();
	storage = VT_MALLOC(2);
	__CPROVER_assume(storage != 0);
	messageq_init(&mq, storage, 2, 2);
	vt_monitor_init();

	vt_cur = A;
	uint16_t *m = messageq_claim(&mq);
	VT_ASSERT(m == storage);
	VT_ACCESS(m, 2, 1, 0); *m = in.p0;			/* plain payload write, before the send */
	messageq_send(&mq, m);

	vt_cur = RECV;
	uint16_t *r = messageq_receive(&mq);
	VT_ASSERT(r == storage);
	VT_ACCESS(r, 2, 0, 0); uint16_t v = *r;			/* plain payload read */
	VT_ASSERT(!vt_race);					/* publish edge: ordered after A's write */
	VT_ASSERT(v == in.p0);
	messageq_release(&mq, r);

	vt_cur = B;
	m = messageq_claim(&mq);
	VT_ASSERT(m == storage);
	VT_ACCESS(m, 2, 1, 0); *m = in.p1;
	VT_ASSERT(!vt_race);					/* slot-release edge: ordered after the receiver's read (and A's write) */
	messageq_send(&mq, m);

	vt_cur = RECV;
	r = messageq_receive(&mq);
	VT_ASSERT(r == storage);
	VT_ACCESS(r, 2, 0, 0); v = *r;
	VT_ASSERT(!vt_race && !vt_stray);
	VT_ASSERT(v == in.p1);
	VT_WITNESS(v == 7 && in.p0 == 9);
}
