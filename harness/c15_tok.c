/* C15 piece 1: do_tokenize on EVERY line of LEN characters (all byte values but NUL).
 * Memory-safety clauses for all lines; token equality with a reference splitter written from the statement for
 * well-formed lines (do not start with white space or a quote; a closing quote is followed by white space or the end;
 * quoted tokens are closed; at most 4 tokens, a 4th token is unquoted and is the last thing on the line). */
#include "c15_common.h"
#ifndef LEN
#define LEN 8
#endif
struct vt_in { char s[LEN + 1]; };
#include "vt_in.h"
static console_t c;

/* reference splitter: returns number of tokens, fills start/len; -1 if the line is outside the well-formed domain */
static int ref_split(const char *s, int len, int start[8], int tlen[8])
{
	int n = 0, i = 0;
	if (len > 0 && (is_ws(s[0]) || s[0] == '\'' || s[0] == '"')) return -1;
	while (i < len) {
		while (i < len && is_ws(s[i])) i++;
		if (i >= len) break;
		if (n >= 4) return -1;			/* more than four tokens: the statement only promises "at most four" */
		if (s[i] == '\'' || s[i] == '"') {
			char q = s[i];
			if (n == 3) return -1;
			int j = i + 1;
			while (j < len && s[j] != q) j++;
			if (j >= len) return -1;	/* unterminated quote */
			if (j == i + 1) return -1;	/* an empty quoted argument: the statement does not say whether it counts */
			if (j + 1 < len && !is_ws(s[j + 1])) return -1;
			start[n] = i + 1; tlen[n] = j - (i + 1); n++;
			i = j + 1;
		} else {
			int j = i;
			while (j < len && !is_ws(s[j])) j++;
			if (n == 3 && j != len) return -1;	/* the fourth token must end the line */
			start[n] = i; tlen[n] = j - i; n++;
			i = j;
		}
	}
	return n;
}

void h_tok(void)
{
	VT_LOAD();
	char line[LEN + 1];
	memset(&c, 0, sizeof(c));
	for (int i = 0; i < LEN; i++) { __CPROVER_assume(in.s[i] != 0); line[i] = in.s[i]; c.scratch.buf[i] = in.s[i]; }
	line[LEN] = 0;
	do_tokenize(&c);
	char *buf = c.scratch.buf;
	VT_ASSERT(c.argc >= 1 && c.argc <= 4);					/* at most four arguments */
	for (int a = 0; a < 4; a++) {
		VT_ASSERT(c.argv[a] >= buf && c.argv[a] <= buf + LEN);		/* inside the line buffer */
		if (a >= c.argc) VT_ASSERT(c.argv[a] == buf + LEN && *c.argv[a] == 0);	/* unused arguments are empty strings */
	}
	VT_ASSERT(buf[LEN] == 0);						/* NUL-terminated within the buffer */
	for (int i = LEN + 1; i < SCRATCH_SIZE; i++) VT_ASSERT(buf[i] == 0);	/* nothing written beyond the line */
	int st[8], tl[8];
	int n = ref_split(line, LEN, st, tl);
	if (n >= 1) {
		VT_ASSERT(c.argc == n);
		for (int a = 0; a < 4; a++) if (a < n) {
			VT_ASSERT(c.argv[a] == buf + st[a]);
			VT_ASSERT(buf[st[a] + tl[a]] == 0);			/* terminated exactly at the token's end */
			for (int k = 0; k < LEN; k++) if (k < tl[a]) VT_ASSERT(buf[st[a] + k] == line[st[a] + k]);	/* contents unchanged */
		}
	}
#if LEN >= 8
	VT_WITNESS(n == 2 && line[2] == '"' && tl[1] == 3 && line[4] == ' ');		/* quoted argument containing a space */
	VT_WITNESS(n == 4 && tl[0] == 1 && tl[1] == 1 && tl[2] == 1);
#else
	VT_WITNESS(n >= 1);
#endif
	VT_WITNESS(n == -1 && c.argc == 4);
}
