from .. import gens
from ..core import Query

SPECS = [("sender", "machine", "sender"), ("receiver", "machine", "receiver")]
IMMOFF = {a: {0: {0, 8, 10}} for a in ("sender", "receiver")}   # basep, msg_len, queue_len: written by messageq_init only
GEN = {opt: gens.ir_gen("c04_agents.c", "c04_gen.c", SPECS, immutable_offsets=IMMOFF, opt=opt) for opt in ("-O1", "-O2")}

META = {
    "level": "model_checking",
    "functions": ["messageq_claim", "messageq_send", "messageq_receive", "messageq_release", "messageq_init (sequential set-up)"],
    "units": ["librfn/messageq.c via clang-14 -O1 LLVM IR (fully inlined into harness/agents/c04_agents.c), translated by vt/ir2c.py to step machines"],
    "bounds": {"quick": "interrupt discipline at source level: the real messageq.c compiled with a shim <stdatomic.h> that may run a complete sender handler "
                        "(claim, write, send) as a nested call before EVERY atomic operation - 3 senders nested to depth 2 over a polling receiver, queue depth 1..2, "
                        "any ring position, 0..depth messages already held (so the queue can be full while claims are in flight), symbolic payloads, one spurious "
                        "weak-CAS failure per handler",
               "thorough": "additionally: receiver as the high-priority handler; and the IR step machines (vt/ir2c.py, one shared "
                           "access per step, symbolic schedule) for 1 sender + receiver at depth 1 under FREE preemption (40 min, 6 GB)"},
    "outside": ["FREE preemption with two or more senders (threads on a multiprocessor): the step-machine query for 2 senders + receiver at depth 1 exceeds 10 GB, 2 senders alone at depth 2 gave no verdict in 50 min - neither is registered; the interrupt "
                "discipline is decided at source level; its step-machine query for 2 senders + receiver needs more than 10 GB once the schedule loop is fully unwound and is not registered either", "more than 3 senders, depth > 3, more than one message per sender",
                "releases out of receive order (the API requires in-order release)"],
    "assumptions": ["shim <stdatomic.h>: sequentially consistent atomics on one core, an interrupt may be taken immediately before each atomic operation; plain accesses "
                    "between two atomics of the same context commute with the handlers (which touch the queue only through atomics and their own claimed buffer)",
                    "ghost ownership per buffer: free -> claimed(by) -> sent -> held -> free; claim order = order in which claims obtain their slot"],
    "rule": "distinct = discipline x roles x bounds.",
}


def q(name, disc, ns, nr, dmax, role="prove", mutate=None, opt="-O1", timeout=3600, extra=None, backend="kissat", unwind=None):
    d = {"DISC": disc, "NS": ns, "NR": nr, "DMAX": dmax}
    d.update(extra or {})
    k = ns * 8 + nr * 7 + 2
    return Query(name, "c04.c", "h_mq", units=["librfn/messageq.c"], defines=d, unwind=unwind or max(ns, dmax, 3) + 3, unwindset="run_schedule.0:%d" % (k + 1),
                 gen=GEN[opt], backend=backend, timeout=timeout, mem_gb=12, role=role, mutate=mutate, object_bits=12,
                 tolerate=[(r"arithmetic overflow on signed shl", "1 << slot in messageq (signed-shift class, see C10)")])


def irq(name, ns, dmax, nest, extra=None, role="prove", mutate=None, timeout=1800):
    d = {"NS": ns, "DMAX": dmax, "MAXNEST": nest, "NR": 2}
    d.update(extra or {})
    return Query(name, "c04_irq.c", "h_irq", defines=d, unwind=max(dmax, ns) + 3, unwindset="messageq_claim.0:%d" % (ns + 4), cc_flags=["-I", "harness/shim"], timeout=timeout, mem_gb=12,
                 object_bits=12, role=role, mutate=mutate,
                 tolerate=[(r"arithmetic overflow on signed shl", "1 << slot in messageq (signed-shift class, see C10)")])


def queries(tier, kf):
    qs = [irq("c04-irq-senders-nest2", 3, 2, 2)]
    cans = [("uchar-counter", "include/librfn/messageq.h", "\tatomic_schar num_free;", "\tatomic_uchar num_free;"),
            ("no-undo", "librfn/messageq.c", "\t\tatomic_fetch_add(&mq->num_free, 1);\n\t\treturn NULL;", "\t\treturn NULL;"),
            ("nonatomic-sendp", "librfn/messageq.c", "\t} while(!atomic_compare_exchange_weak(&mq->sendp, &sendp, newsendp));", "\t} while (0);\n\tatomic_store(&mq->sendp, newsendp);")]
    for n, f, old, new in cans:
        qs.append(irq("c04-canary-" + n, 3, 2, 2, role="canary", mutate=[(f, old, new)]))
    if tier == "thorough":
        qs.append(irq("c04-irq-recv-high-nest2", 3, 2, 2, extra={"RECV_IS_IRQ": None}, timeout=3600))
        qs.append(gens.selftest_query("c04-ir2c-selftest"))
        qs.append(q("c04-machine-free-1s-1r-d1", 0, 1, 1, 1, extra={"DEPTH": 1}, backend="minisat", timeout=9000))
    return qs
