/* C16: bit-counting helpers equal their mathematical definitions on ALL inputs.
 * Real code: librfn/bitops.c (linked), include/librfn/constexpr.h (macros on run-time arguments).
 * Oracles: the obvious bit-at-a-time loops. */
#include "vt.h"
#include "librfn/bitops.h"
#include "librfn/constexpr.h"
struct vt_in { uint32_t x; uint64_t c; };
#include "vt_in.h"

static int ref_pop64(uint64_t v) { int n = 0; for (int i = 0; i < 64; i++) n += (v >> i) & 1; return n; }
static int ref_clz32(uint32_t v) { int n = 0; for (int i = 31; i >= 0 && !((v >> i) & 1); i--) n++; return n; }
static int ref_ctz32(uint32_t v) { int n = 0; for (int i = 0; i < 32 && !((v >> i) & 1); i++) n++; return n; }
static int ref_lssb64(uint64_t v) { for (int i = 0; i < 64; i++) if ((v >> i) & 1) return i; return -1; }

void h_bitcnt(void) { VT_LOAD(); int r = bitcnt(in.x); VT_ASSERT(r == ref_pop64(in.x)); VT_WITNESS(r == 32); }
void h_clz(void)    { VT_LOAD(); int r = clz(in.x);    VT_ASSERT(r == ref_clz32(in.x)); VT_WITNESS(r == 32); }
void h_ctz(void)    { VT_LOAD(); int r = ctz(in.x);    VT_ASSERT(r == ref_ctz32(in.x)); VT_WITNESS(r == 32); }
void h_ilog2(void)  { VT_LOAD(); __CPROVER_assume(in.x != 0); int r = ilog2(in.x);
                      VT_ASSERT(r >= 0 && r < 32 && ((in.x >> r) == 1)); VT_WITNESS(r == 31); }
void h_const_pop(void)  { VT_LOAD(); uint64_t c = in.c; int r = const_pop(c);  VT_ASSERT(r == ref_pop64(c));  VT_WITNESS(r == 64); }
void h_const_lssb(void) { VT_LOAD(); uint64_t c = in.c; int r = const_lssb(c); VT_ASSERT(r == ref_lssb64(c)); VT_WITNESS(r == 63); }
/* narrower argument types go through the macro's (uint64_t) cast: sign extension must not leak in for unsigned types */
void h_const_u32(void)  { VT_LOAD(); uint32_t c = in.x; VT_ASSERT(const_pop(c) == ref_pop64(c)); VT_ASSERT(const_lssb(c) == ref_lssb64(c)); VT_WITNESS(c == 0x80000000u); }

/* "same value as a compile-time constant": these instances are folded by the front end
 * (goto-cc here, gcc in the native replay build); a wrong macro stops the build. */
#define SA1(k) _Static_assert(const_pop(1ULL << (k)) == 1 && const_lssb(1ULL << (k)) == (k), "one-bit pattern")
#define SA8(k) SA1(k); SA1(k+1); SA1(k+2); SA1(k+3); SA1(k+4); SA1(k+5); SA1(k+6); SA1(k+7)
SA8(0); SA8(8); SA8(16); SA8(24); SA8(32); SA8(40); SA8(48); SA8(56);
#define SM1(k) _Static_assert(const_pop((~0ULL) >> (k)) == 64 - (k) && const_lssb((~0ULL) << (k)) == (k) && const_pop((~0ULL) << (k)) == 64 - (k), "contiguous mask")
#define SM8(k) SM1(k); SM1(k+1); SM1(k+2); SM1(k+3); SM1(k+4); SM1(k+5); SM1(k+6); SM1(k+7)
SM8(0); SM8(8); SM8(16); SM8(24); SM8(32); SM8(40); SM8(48); SM8(56);
#define ST1(k) _Static_assert(const_pop((1ULL << (k)) | (1ULL << 63)) == ((k) == 63 ? 1 : 2) && const_lssb((1ULL << (k)) | (1ULL << 63)) == (k), "two-bit pattern")
#define ST8(k) ST1(k); ST1(k+1); ST1(k+2); ST1(k+3); ST1(k+4); ST1(k+5); ST1(k+6); ST1(k+7)
ST8(0); ST8(8); ST8(16); ST8(24); ST8(32); ST8(40); ST8(48); ST8(56);
_Static_assert(const_pop(0) == 0 && const_lssb(0) == -1, "zero");
enum { C16_E0 = const_pop(0xdeadbeefcafef00dULL), C16_E1 = const_lssb(0x8000000000000000ULL) };
void h_const_fold(void) { VT_LOAD(); uint64_t a = 0xdeadbeefcafef00dULL, b = 0x8000000000000000ULL;
  VT_ASSERT(const_pop(a) == C16_E0 && const_lssb(b) == C16_E1 && C16_E1 == 63); VT_WITNESS(in.x == 1); }
