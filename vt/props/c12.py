from ..core import Query

U = ["librfn/pack.c"]
TOL = [
    (r"pointer outside object bounds.*\|(rf_pack_|rf_unpack_|do_op|h_step|check_state)", "pack.c forms its cursor past the buffer by design - the property calls that the overflow state; pointer-relation / pointer-arithmetic class, not a byte access"),
    (r"arithmetic overflow on signed - in pack->(endp|p) - pack->(p|basep)", "pointer difference taken while the cursor is past the buffer (overflow state): same class as the pointer-relation checks"),
    (r"pointer relation", "comparison of the deliberately overrunning cursor with endp (same object, past-the-end arithmetic)"),
    (r"arithmetic overflow on signed shl", "p[3] << 24 on an int promoted from uint8_t: signed-shl UB at language level, value is what gcc/clang produce; reported separately, not part of the property"),
    (r"pointer arithmetic", "cursor arithmetic past the buffer (overflow state)"),
]
META = {
    "level": "model_checking",
    "functions": ["rf_pack_init", "rf_pack_consumed", "rf_pack_remaining", "rf_pack_bytes", "rf_pack_s16le", "rf_pack_u16be", "rf_pack_u16le",
                  "rf_pack_s32le", "rf_pack_u32le", "rf_unpack_bytes", "rf_unpack_char", "rf_unpack_s8", "rf_unpack_u8", "rf_unpack_u16le", "rf_unpack_u32le"],
    "units": ["librfn/pack.c"],
    "bounds": {"quick": "buffer size 0..12 (exact-size heap object), cursor anywhere in 0..size+40 (overrun = sticky state), any of the 12 implemented "
                        "operations with all argument bits, byte-array lengths 0..6, NULL/non-NULL source and destination; plus all 2-operation (size<=8; thorough: 3-operation, size<=6) "
                        "sequences from rf_pack_init and the pack/unpack round trip at offsets 0..2",
               "thorough": "as quick with buffer size 0..16 and all 3-operation sequences over sizes 0..6"},
    "outside": ["buffers larger than 16 bytes and byte arrays longer than 6 (the code's behaviour depends on size only through the comparison with endp)",
                "total requested bytes >= 2^31 (property scope)", "the 12 functions pack.h declares but pack.c does not implement"],
    "assumptions": ["malloc does not fail (harness)", "tolerated standard-level UB classes are counted in the evidence, see tolerated_reasons"],
    "rule": "distinct = harness entry x size bound.",
}


def queries(tier, kf):
    mx, nops, sq = (12, 2, 8) if tier == "quick" else (16, 3, 6)
    d = {"MAXSZ": mx, "NOPS": 1}
    ds = {"MAXSZ": sq, "NOPS": nops}
    uw = mx + 2
    qs = [
        Query("c12-step", "c12.c", "h_step", units=U, defines=d, unwind=uw, tolerate=TOL, timeout=600),
        Query("c12-seq", "c12.c", "h_seq", units=U, defines=ds, unwind=uw, tolerate=TOL, timeout=1500),
        Query("c12-roundtrip", "c12.c", "h_roundtrip", units=U, defines={"MAXSZ": mx, "NOPS": 3}, unwind=uw, tolerate=TOL, timeout=600),
    ]
    cans = [("exactfit", "\tif (pack->p <= pack->endp)", "\tif (pack->p < pack->endp)"),
            ("order", "\t\tp[0] = (u16 >> 8) & 0xff;\n\t\tp[1] = u16 & 0xff;", "\t\tp[1] = (u16 >> 8) & 0xff;\n\t\tp[0] = u16 & 0xff;"),
            ("zerofill", "\t} else {\n\t\tif (p)\n\t\t\tmemset(p, 0, sz);\n\t}", "\t}"),
            ("unpack-bound", "\tif (pack->p > pack->endp) \\\n\t\treturn 0;", "\tif (pack->p > pack->endp + 1) \\\n\t\treturn 0;")]
    for n, old, new in cans:
        qs.append(Query("c12-canary-" + n, "c12.c", "h_step", units=U, defines={"MAXSZ": 12, "NOPS": 3}, unwind=14, tolerate=TOL, role="canary",
                        mutate=[("librfn/pack.c", old, new)], timeout=600))
    return qs
