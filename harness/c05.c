/* C05: ring buffer - one producer, one consumer, every interleaving at shared-access granularity.
 * The agents (harness/agents/c05_agents.c, plain C calling the REAL ringbuf API) are compiled by clang-14 together with
 * the real librfn/ringbuf.c, fully inlined, and translated from the LLVM IR into step machines by vt/ir2c.py
 * (c05_gen.c, regenerated on every run).  A step = one access to shared memory.  The schedule is a symbolic array:
 * the solver chooses the interleaving.  Disciplines: DISC 0 free preemption, 1 the producer is an interrupt handler
 * (once it has begun a call it runs to the end of it), 2 the consumer is.  */
#include "vt.h"
#include <stdlib.h>
#include "librfn/ringbuf.h"

#ifndef NPUT
#define NPUT 3
#endif
#ifndef NGET
#define NGET 3
#endif
#ifndef MAXLEN
#define MAXLEN 3
#endif
#ifndef DISC
#define DISC 0
#endif
#define STEPS_PER_OP 6
#define KSTEPS ((NPUT + NGET) * STEPS_PER_OP + 2)

struct vt_in { uint8_t len, start, nput, nget; uint8_t val[NPUT]; uint8_t sched[KSTEPS]; };
#include "vt_in.h"

/* ---- what the generated machines call ---- */
static ringbuf_t rb;
static uint8_t *storage;
static unsigned len;
#ifdef VT_MONITOR	/* C07 */
#define VT_NAG 2
#define VT_NLOC (MAXLEN + 4)
static int vt_cur;
static int vt_loc_of(char *addr, unsigned size)
{
	(void)size;
	if (VT_IN_OBJECT(addr, storage, len)) return (int)(addr - (char *)storage);	/* payload bytes */
	if (addr == (char *)&rb.readi) return MAXLEN;
	if (addr == (char *)&rb.writei) return MAXLEN + 1;
	if (addr == (char *)&rb.bufp) return MAXLEN + 2;
	if (addr == (char *)&rb.buf_len) return MAXLEN + 3;
	return -1;
}
#include "vt_monitor.h"
#else
#define VT_ACCESS(addr, size, kind, order) ((void)0)
#endif
#define VT_CAS_SPURIOUS() 0
#define VT_ASSERT_FAIL() VT_ASSERT(0 && "assert() inside the library fired")
static int vt_value(unsigned i);
static void vt_event(int code, int arg);
#include "c05_gen.c"

enum { EV_PUT_BEGIN = 1, EV_PUT_END, EV_GET_BEGIN, EV_GET_END, EV_EMPTY_BEGIN, EV_EMPTY_END };

/* ---- ghost state ---- */
static uint8_t sent[NPUT]; static unsigned nsent;	/* bytes of puts that succeeded or are in progress, in order */
static unsigned ngot;					/* successful gets so far */
static bool put_open, get_open, empty_open;		/* a call is in progress */
static bool seen_full, seen_empty;			/* the condition a failing call may appeal to held at some instant during it */
static bool must_get;

static int vt_value(unsigned i) { return i < NPUT ? in.val[i] : 0; }

static void sample(void)	/* evaluated at every step boundary on the REAL indices */
{
	unsigned r = atomic_load(&rb.readi), w = atomic_load(&rb.writei);
	if (put_open && (w + 1) % len == r) seen_full = true;		/* the buffer held len-1 unread bytes */
	if ((get_open || empty_open) && r == w) seen_empty = true;
}

static void vt_event(int code, int arg)
{
	switch (code) {
	case EV_PUT_BEGIN:
		VT_ASSERT(nsent < NPUT);
		sent[nsent++] = (uint8_t)arg;			/* announced before the call: a consumer may read it before put returns */
		put_open = true; seen_full = false; sample();
		break;
	case EV_PUT_END:
		sample();
		if (!arg) {
			VT_ASSERT(seen_full);			/* a put fails only if the buffer was full at some instant during the call */
			VT_ASSERT(ngot < nsent);		/* ... and the byte it did not store has not been delivered */
			nsent--;
		}
		put_open = false;
		break;
	case EV_GET_BEGIN: get_open = true; seen_empty = false; must_get = arg; sample(); break;
	case EV_GET_END:
		sample();
		if (arg < 0) {
			VT_ASSERT(arg == -1);
			VT_ASSERT(seen_empty);			/* -1 only if the buffer was empty at some instant during the call */
			VT_ASSERT(!must_get);			/* ringbuf_empty said there was data and there is only one consumer */
		} else {
			VT_ASSERT(arg <= 255);			/* as unsigned values 0..255 */
			VT_ASSERT(ngot < nsent);		/* nothing invented, nothing duplicated */
			VT_ASSERT((uint8_t)arg == sent[ngot]);	/* in order, not overwritten before it was read */
			ngot++;
		}
		get_open = false;
		break;
	case EV_EMPTY_BEGIN: empty_open = true; seen_empty = false; sample(); break;
	case EV_EMPTY_END: sample(); if (arg) VT_ASSERT(seen_empty); empty_open = false; break;
	}
}

#ifndef PRODUCER
#define PRODUCER producer
#endif
#ifndef CONSUMER
#define CONSUMER consumer
#endif
#define CAT_(a, b) a##b
#define CAT(a, b) CAT_(a, b)
#define CTX(n) struct CAT(n, _ctx)
#define STEP(n) CAT(n, _step)

void h_ring(void)
{
	VT_LOAD();
	len = in.len;
#ifdef LEN
	__CPROVER_assume(len == LEN);
#endif
	__CPROVER_assume(len >= 2 && len <= MAXLEN && in.start < len);
	__CPROVER_assume(in.nput <= NPUT && in.nget <= NGET);
	storage = VT_MALLOC(MAXLEN);
	__CPROVER_assume(storage != 0);
	/* exactly `len` bytes belong to the ring: the rest of the allocation is a red zone that must never be touched */
	for (unsigned i = 0; i < MAXLEN; i++) storage[i] = 0xee;
	ringbuf_init(&rb, storage, len);
	atomic_store(&rb.readi, in.start); atomic_store(&rb.writei, in.start);	/* every starting position incl. wrap-around */

#ifdef VT_MONITOR
	vt_monitor_init();
#endif
	static CTX(PRODUCER) p; static CTX(CONSUMER) c;
	p.pc = 0; p.done = 0; p.v_0 = (char *)&rb; p.v_1 = in.nput;
	c.pc = 0; c.done = 0; c.v_0 = (char *)&rb; c.v_1 = in.nget;

	bool idle = false;
	for (unsigned k = 0; k < KSTEPS; k++) {
		uint8_t who = in.sched[k];
		__CPROVER_assume(who <= 2);
		if (idle) __CPROVER_assume(who == 2);		/* idling only as a suffix (symmetry breaking) */
		if (who == 2) { __CPROVER_assume(p.done && c.done); idle = true; continue; }
#if DISC == 1
		if (put_open) __CPROVER_assume(who == 0);	/* the producer's call is an interrupt handler: it runs to completion */
#elif DISC == 2
		if (get_open || empty_open) __CPROVER_assume(who == 1);
#endif
#ifdef VT_MONITOR
		vt_cur = who;
#endif
		if (who == 0) { __CPROVER_assume(!p.done); STEP(PRODUCER)(&p); }
		else { __CPROVER_assume(!c.done); STEP(CONSUMER)(&c); }
#ifdef VT_MONITOR
		VT_ASSERT(!vt_race);	/* every plain access is ordered by happens-before with every conflicting access of the other agent */
		VT_ASSERT(!vt_stray);	/* and the agents touch nothing but the ring structure and its storage */
#endif
		sample();
	}
	__CPROVER_assume(p.done && c.done);			/* K is the exact sum of the agents' maximal step counts */
	/* quiescence: everything sent and not yet received is still there, in order */
	for (unsigned i = 0; i < NPUT; i++) if (i >= ngot && i < nsent) {
		int d = ringbuf_get(&rb);
		VT_ASSERT(d == sent[i]);
	}
	VT_ASSERT(ringbuf_get(&rb) == -1 && ringbuf_empty(&rb));
	for (unsigned i = 0; i < MAXLEN; i++) if (i >= len) VT_ASSERT(storage[i] == 0xee);	/* no access outside the caller's buf_len bytes */
	VT_WITNESS(in.nput == NPUT && in.nget == NGET && ngot >= NGET - 1 && in.sched[0] != in.sched[1]);	/* interleaved from the start, nearly all delivered */
#ifndef NO_FAIL_WITNESS
	VT_WITNESS(nsent < in.nput);										/* a put that failed on a full ring */
#endif
}
