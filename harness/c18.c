/* C18 (parser half): hex_get_byte is safe on any text and makes progress.
 * hex_get_byte_ir is the ir2c plain-mode translation of the real function (regenerated on every run).
 * The parser is resumable through *p, so its claims are statements about ONE call from an arbitrary position of a
 * string of concrete length LEN (contents symbolic, all byte values but NUL; one query per length):
 *   reads stay inside the string (exactly-sized heap object + cbmc dereference checks), result in -1..255,
 *   on -1 *p is NULL (and a NULL resume returns -1 without touching anything), otherwise *p has advanced by at
 *   least two characters and is still inside the string - so repeated calls terminate and then keep returning -1.
 * h_roundtrip: the text hex_dump_to_file writes for NB bytes (format proved in c18_dump.c) parses back to the bytes. */
#include "vt.h"
#include <stdlib.h>
#include <string.h>
#include <ctype.h>
#define VT_ACCESS(addr, size, kind, order) ((void)0)
#define VT_ASSERT_FAIL() VT_ASSERT(0 && "assert() inside the library fired")
#include "c18_gen.c"
#ifndef LEN
#define LEN 6
#endif
struct vt_in { char s[LEN + 1]; uint32_t pos; uint8_t first; uint8_t b[4]; };
#include "vt_in.h"

void h_call(void)
{
	VT_LOAD();
	char *s = VT_MALLOC(LEN + 1);
	__CPROVER_assume(s != 0);
	for (unsigned i = 0; i < LEN; i++) { __CPROVER_assume(in.s[i] != 0); s[i] = in.s[i]; }
	s[LEN] = 0;
	unsigned pos = in.pos;
	__CPROVER_assume(pos <= LEN);
	char *p = s + pos;
	int v;
	if (in.first & 1) { p = (char *)8; v = (int)hex_get_byte_ir(s + pos, (char *)&p); }	/* first call: the string is passed, *p is garbage */
	else v = (int)hex_get_byte_ir((char *)0, (char *)&p);					/* resumed call */
	VT_ASSERT(v >= -1 && v <= 255);
	if (v == -1) VT_ASSERT(p == 0);				/* end protocol */
	else VT_ASSERT(p >= s + pos + 2 && p <= s + LEN);	/* strict progress, still inside the string */
	if (v == -1) {	/* ... and then it keeps returning -1 */
		int v2 = (int)hex_get_byte_ir((char *)0, (char *)&p);
		VT_ASSERT(v2 == -1 && p == 0);
	}
#if LEN >= 4
	VT_WITNESS(v == 0xab && s[pos] == '0' && s[pos + 1] == 'x');	/* 0x prefix, letter case */
#endif
#if LEN >= 2
	VT_WITNESS(v == 0x5c);
#endif
	VT_WITNESS(v == -1);
}

#ifndef NB
#define NB 2
#endif
static char lc(unsigned x) { return x < 10 ? '0' + x : 'a' + (x - 10); }
void h_roundtrip(void)
{
	VT_LOAD();
	/* the dump of NB bytes, as c18_dump.c proves hex_dump_to_file writes it */
	char *t = VT_MALLOC(3 * NB + 2);
	__CPROVER_assume(t != 0);
	unsigned n = 0;
	for (unsigned i = 0; i < NB; i++) { t[n++] = lc(in.b[i] >> 4); t[n++] = lc(in.b[i] & 15); if (i % 16 == 15 || i == NB - 1) t[n++] = '\n'; }
	t[n] = 0;
	char *p = 0;
	for (unsigned i = 0; i < NB + 2; i++) {
		int v = (int)hex_get_byte_ir(i == 0 ? t : (char *)0, (char *)&p);
		if (i < NB) VT_ASSERT(v == in.b[i]); else VT_ASSERT(v == -1);	/* exactly the original bytes, followed by -1 */
	}
	VT_WITNESS(in.b[0] == 0xfa && in.b[NB - 1] == (NB > 1 ? 0x07 : 0xfa));
}

/* value-level lemma for addressed multi-line text: "A:hl\nB:HL" (address digit + colon on EACH line, symbolic hex digits
 * of either case, optional space after the colon chosen by SP) parses to exactly the two data bytes, then -1 */
static int hexval(char ch) { return ch >= '0' && ch <= '9' ? ch - '0' : ch >= 'a' && ch <= 'f' ? ch - 'a' + 10 : ch >= 'A' && ch <= 'F' ? ch - 'A' + 10 : -1; }
#ifndef SP
#define SP 0
#endif
void h_lines(void)
{
	VT_LOAD();
	char d[6];
	for (int i = 0; i < 6; i++) { d[i] = in.s[i % (LEN + 1)]; __CPROVER_assume(hexval(d[i]) >= 0); }
#if SP
	char text[] = { d[0], ':', ' ', d[1], d[2], '\n', d[3], ':', ' ', d[4], d[5], 0 };
#else
	char text[] = { d[0], ':', d[1], d[2], '\n', d[3], ':', d[4], d[5], 0 };
#endif
	char *t = VT_MALLOC(sizeof(text));
	__CPROVER_assume(t != 0);
	for (unsigned i = 0; i < sizeof(text); i++) t[i] = text[i];
	char *p = 0;
	int v0 = (int)hex_get_byte_ir(t, (char *)&p);
	int v1 = (int)hex_get_byte_ir((char *)0, (char *)&p);
	int v2 = (int)hex_get_byte_ir((char *)0, (char *)&p);
	VT_ASSERT(v0 == 16 * hexval(d[1]) + hexval(d[2]));
	VT_ASSERT(v1 == 16 * hexval(d[4]) + hexval(d[5]));	/* the address prefix of the second line is skipped, not parsed as data */
	VT_ASSERT(v2 == -1);
	VT_WITNESS(v0 == 0xAb && d[1] == 'A' && d[2] == 'b' && d[3] == 'F');
}
