/* C04 agents: senders and the receiver in plain C on the REAL message queue API; compiled with clang-14 together with
 * librfn/messageq.c (fully inlined) and translated into step machines by vt/ir2c.py. */
#include "librfn/messageq.c"
extern void vt_ev(int code, int who, void *p, int arg);	/* ghost event */
extern void vt_yield(void);
extern int vt_payload(int who, unsigned k);
enum { EV_CLAIM_BEGIN = 1, EV_CLAIM_END, EV_SEND_BEGIN, EV_SEND_END, EV_RECV_BEGIN, EV_RECV_END, EV_PAYLOAD, EV_REL_BEGIN, EV_REL_END, EV_HANDLER_END };

void sender(messageq_t *mq, int who, unsigned n)
{
	for (unsigned k = 0; k < n; k++) {
		vt_ev(EV_CLAIM_BEGIN, who, 0, 0);
		uint16_t *m = messageq_claim(mq);
		vt_ev(EV_CLAIM_END, who, m, 0);
		if (m) {
			*m = (uint16_t)vt_payload(who, k);	/* the contents are written before the send */
			vt_ev(EV_SEND_BEGIN, who, m, 0);
			messageq_send(mq, m);
			vt_ev(EV_SEND_END, who, m, 0);
		}
		vt_ev(EV_HANDLER_END, who, 0, 0);
		vt_yield();
	}
}

void receiver(messageq_t *mq, int who, unsigned n)
{
	for (unsigned k = 0; k < n; k++) {
		vt_ev(EV_RECV_BEGIN, who, 0, 0);
		uint16_t *m = messageq_receive(mq);
		vt_ev(EV_RECV_END, who, m, 0);
		if (m) {
			int v = *m;
			vt_ev(EV_PAYLOAD, who, m, v);
			vt_ev(EV_REL_BEGIN, who, m, 0);
			messageq_release(mq, m);
			vt_ev(EV_REL_END, who, m, 0);
		}
		vt_ev(EV_HANDLER_END, who, 0, 0);
		vt_yield();
	}
}
