/* C07: happens-before monitor driven by the memory order of every access the compiler actually emitted.
 * The including harness defines VT_NAG (agents), VT_NLOC (tracked locations), `int vt_cur` (agent taking the current
 * step) and `int vt_loc_of(char *addr, unsigned size)` (location index, or -1 for an address outside every registered
 * region).  Explored executions are sequentially consistent interleavings; happens-before is computed from the orders:
 *   store/RMW with release (or stronger) publishes the writer's vector clock on the location (an RMW continues a
 *   release sequence, a relaxed store breaks it); load/RMW with acquire (or stronger) joins it; relaxed operations and
 *   compiler-only (singlethread) fences transfer nothing.
 * A conflict is two accesses to the same location from different agents, at least one a write and at least one plain
 * (non-atomic); every conflict must be ordered by happens-before. */
#ifndef VT_MONITOR_H
#define VT_MONITOR_H
struct vt_mloc {
	uint8_t rel[VT_NAG];			/* release clock carried by the location */
	uint8_t w_clock; int8_t w_agent; bool w_plain;	/* last write */
	uint8_t r_clock[VT_NAG]; bool r_plain[VT_NAG];	/* last read per agent */
};
static uint8_t vt_vc[VT_NAG][VT_NAG];	/* 8-bit clocks: an agent takes far fewer than 255 steps */
static struct vt_mloc vt_ml[VT_NLOC];
static bool vt_race, vt_stray;

static void vt_monitor_init(void)
{
	for (int a = 0; a < VT_NAG; a++) for (int b = 0; b < VT_NAG; b++) vt_vc[a][b] = 0;
	for (int l = 0; l < VT_NLOC; l++) { vt_ml[l].w_agent = -1; vt_ml[l].w_clock = 0; vt_ml[l].w_plain = false;
		for (int a = 0; a < VT_NAG; a++) { vt_ml[l].rel[a] = 0; vt_ml[l].r_clock[a] = 0; vt_ml[l].r_plain[a] = false; } }
}

static void vt_access(char *addr, unsigned size, int kind, int order)
{
	int a = vt_cur;
	if (kind == 4) return;			/* fences: the sources only use compiler (singlethread) fences; a thread fence would need the C11 fence rules */
	int l = vt_loc_of(addr, size);
	if (l < 0) { vt_stray = true; return; }	/* agents must touch registered regions only */
	bool atomic = order != 0;
	bool is_write = kind == 1 || kind == 2 || kind == 3;
	bool is_read = kind == 0 || kind == 2 || kind == 3;
	int ord = order & 255;
	struct vt_mloc *m = &vt_ml[l];
	vt_vc[a][a]++;
	/* conflicts with earlier accesses of OTHER agents */
	if (m->w_agent >= 0 && m->w_agent != a && (!atomic || m->w_plain) && !(m->w_clock <= vt_vc[a][m->w_agent])) vt_race = true;
	if (is_write)
		for (int b = 0; b < VT_NAG; b++) if (b != a && m->r_clock[b] && (!atomic || m->r_plain[b]) && !(m->r_clock[b] <= vt_vc[a][b])) vt_race = true;
	/* synchronisation */
	if (atomic && is_read && (ord == 2 || ord == 4 || ord == 5))
		for (int b = 0; b < VT_NAG; b++) if (m->rel[b] > vt_vc[a][b]) vt_vc[a][b] = m->rel[b];
	if (atomic && is_write) {
		bool releasing = ord == 3 || ord == 4 || ord == 5;
		bool rmw = kind == 2 || kind == 3;
		for (int b = 0; b < VT_NAG; b++) {
			uint8_t mine = releasing ? vt_vc[a][b] : 0;
			if (rmw) { if (mine > m->rel[b]) m->rel[b] = mine; }	/* continues the release sequence */
			else m->rel[b] = mine;					/* a plain-ordered store heads a new (possibly empty) one */
		}
	}
	if (is_write) { m->w_agent = a; m->w_clock = vt_vc[a][a]; m->w_plain = !atomic; }
	if (is_read) { m->r_clock[a] = vt_vc[a][a]; m->r_plain[a] = !atomic; }
}
#define VT_ACCESS(addr, size, kind, order) vt_access((char *)(addr), (size), (kind), (order))
#endif
