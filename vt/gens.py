"""Registry of source generators, so that a replay can regenerate exactly the file a query was built from."""
import os


def c08_gen(tier, seed):
    from . import ptgen

    def gen(root, workdir):
        cfg = c08_cfg(tier)
        progs = ptgen.batch(seed, cfg["count"], cfg["size"], cfg["depth"], cfg["child_depth"], cfg["tape"], True)
        path = os.path.join(workdir, "c08_gen.c")
        # pids are renumbered per program in emit; maxinv per program is computed in the props module, here use the max
        mi = max(ptgen.bounds(p, cfg["tape"])[0] for p in progs) + 2
        ptgen.write_batch(path, progs, cfg["tape"], mi)
        return [path]
    gen.vt_name = "c08:%s:%d" % (tier, seed)
    return gen


def c08_cfg(tier):
    if tier == "quick":
        return dict(count=14, size=5, depth=2, child_depth=2, tape=5)
    return dict(count=30, size=6, depth=3, child_depth=2, tape=6)


def ir_gen(agents_c, out_name, specs, immutable=None, immutable_offsets=None, opt="-O1", extra_defs=()):
    """clang-14 IR of harness/agents/<agents_c> (which #includes the real librfn unit) -> <workdir>/<out_name> via vt/ir2c.py.
    Regenerated from the current source tree on every run; the harness #includes the result."""
    import subprocess
    from . import core, ir2c

    def gen(root, workdir):
        src = os.path.join(core.HARNESS, "agents", agents_c)
        ll = os.path.join(workdir, out_name + ".ll")
        cmd = ["clang-14", opt, "-fno-vectorize", "-fno-slp-vectorize", "-fno-unroll-loops", "-mllvm", "-inline-threshold=100000",
               "-D__NO_CTYPE", "-I", os.path.join(root, "include"), "-I", root, "-S", "-emit-llvm", src, "-o", ll] + list(extra_defs)
        r = subprocess.run(cmd, capture_output=True, text=True)
        if r.returncode:
            raise RuntimeError("clang failed: " + r.stderr[-1500:])
        text = ir2c.translate(open(ll).read(), specs, immutable=immutable, immutable_offsets=immutable_offsets)
        open(os.path.join(workdir, out_name), "w").write(text)
        return []
    gen.vt_name = "ir:" + out_name + ":" + opt
    REG[gen.vt_name] = gen
    return gen


REG = {}


def run(name, root, workdir):
    kind, *rest = name.split(":")
    if kind == "c08":
        return c08_gen(rest[0], int(rest[1]))(root, workdir)
    if name not in REG:
        # the generators register themselves when their property module is imported
        import importlib
        for mod in ("c04", "c05", "c07", "c18"):
            try:
                importlib.import_module("vt.props." + mod)
            except Exception:
                pass
    if name in REG:
        return REG[name](root, workdir)
    raise ValueError(name)


def ir2c_selftest(root):
    """Differential validation of vt/ir2c.py (plain mode) against the gcc build of the same sources; returns (ok, text)."""
    import subprocess
    import tempfile
    import shutil
    from . import core, ir2c
    wd = tempfile.mkdtemp(prefix="st-", dir=core.scratch())
    try:
        ll = os.path.join(wd, "st.ll")
        r = subprocess.run(["clang-14", "-O1", "-fno-vectorize", "-fno-slp-vectorize", "-fno-unroll-loops", "-I", os.path.join(root, "include"), "-I", root,
                            "-S", "-emit-llvm", os.path.join(core.HARNESS, "agents", "selftest_agents.c"), "-o", ll], capture_output=True, text=True)
        if r.returncode:
            return False, "clang failed: " + r.stderr[-800:]
        names = ["ringbuf_init", "ringbuf_get", "ringbuf_empty", "ringbuf_put", "messageq_init", "messageq_claim", "messageq_send", "messageq_receive", "messageq_release"]
        text = ir2c.translate(open(ll).read(), [(n, "plain", n + "_ir") for n in names])
        open(os.path.join(wd, "selftest_gen.c"), "w").write(text)
        exe = os.path.join(wd, "st")
        r = subprocess.run(["gcc", "-std=gnu11", "-O1", "-w", "-fsanitize=address,undefined", "-fno-sanitize=shift-base", "-I", wd, "-I", os.path.join(root, "include"),
                            "-o", exe, os.path.join(core.HARNESS, "selftest", "ir2c_diff.c"), os.path.join(root, "librfn/ringbuf.c"), os.path.join(root, "librfn/messageq.c")],
                           capture_output=True, text=True)
        if r.returncode:
            return False, "gcc failed: " + r.stderr[-1500:]
        r = subprocess.run([exe], capture_output=True, text=True, timeout=300)
        return r.returncode == 0, (r.stdout + r.stderr)[-600:]
    finally:
        shutil.rmtree(wd, ignore_errors=True)


def selftest_query(name):
    """A pseudo-query that runs the translator self-test; a disagreement is reported as an error (inconclusive), never as a violation."""
    import time
    from .core import Query, REPO

    def run(q):
        t0 = time.time()
        ok, text = ir2c_selftest(REPO)
        return {"name": q.name, "role": "prove", "harness": "selftest/ir2c_diff.c", "entry": "main", "backend": "native differential run (gcc vs ir2c plain mode)",
                "status": "pass" if ok else "error", "failed": [], "tolerated": [], "witness_reached": True, "inputs": None,
                "detail": "" if ok else "vt/ir2c.py disagrees with the gcc build: " + text, "note": text.strip()[:200], "defines": {}, "mutate": [],
                "wall_s": round(time.time() - t0, 2), "total_s": round(time.time() - t0, 2), "steps": 1000000}
    q = Query(name, "selftest/ir2c_diff.c", "main", engine="custom", witness=False, note="translator validation: ir2c plain-mode output of ringbuf.c and messageq.c vs the gcc build on 1,000,000 random operations")
    q.runner = run
    return q
