/* C14: decoding untrusted WAV bytes is memory-safe and reports length faithfully.
 * Real code: librfn/wavheader.c + librfn/pack.c (linked).  Input buffers are exactly-sized heap
 * objects, every byte symbolic (so all 32-bit size fields are fully adversarial). */
#include "vt.h"
#include <stdlib.h>
#include <stdarg.h>
#include "librfn/wavheader.h"
#ifndef MAXB
#define MAXB 72
#endif
#ifndef SZ
#define SZ MAXB
#endif
struct vt_in { uint32_t sz, k; uint8_t b[MAXB]; };
#include "vt_in.h"

/* stub: the arguments (including the division by block_align) are evaluated by the caller */
char *strdup_printf(const char *fmt, ...) { (void)fmt; return 0; }

static uint8_t *exact_copy(uint32_t n)
{
	uint8_t *p = VT_MALLOC(n);
	__CPROVER_assume(p != 0);
	for (uint32_t i = 0; i < MAXB; i++) if (i < n) p[i] = in.b[i];
	return p;
}

void h_decode(void)
{
	VT_LOAD();
	/* the declared length is a query parameter (one query per length): a heap object of symbolic size
	 * costs about 1000x in formula size; the contents stay symbolic */
	uint32_t sz = SZ;
	uint8_t *p = exact_copy(sz);
	rf_wavheader_t wh;
	int r = rf_wavheader_decode(p, sz, &wh);
	/* negative error | larger than supplied (incomplete) | exact length, never below the minimum */
	VT_ASSERT(r < 0 || (uint32_t)r > sz || r >= RF_WAVHEADER_MIN_SIZE);
	if (r >= 0 && (uint32_t)r <= sz) {
		/* "the exact number of bytes the header occupies": the first r bytes on their own are the same header -
		 * same length, same structure (so r neither under- nor over-states what the decoder consumed) */
		{
			rf_wavheader_t w1;
			int r1 = rf_wavheader_decode(p, (unsigned)r, &w1);
			VT_ASSERT(r1 == r);
			VT_ASSERT(memcmp(&w1, &wh, sizeof(wh)) == 0);
		}
		/* truncating an accepted header at any point never yields success */
		uint32_t k = in.k;
		__CPROVER_assume(k < (uint32_t)r);
		/* same bytes, shorter declared length: that a decode with declared length k reads nothing beyond
		 * k bytes is what the query with SZ == k establishes for all contents, so the buffer need not be re-allocated */
		rf_wavheader_t w2;
		int r2 = rf_wavheader_decode(p, k, &w2);
		VT_ASSERT(r2 < 0 || (uint32_t)r2 > k);
#if SZ >= 68
		VT_WITNESS(r == 68 && k == 67);
#endif
	}
#if SZ >= 44
	VT_WITNESS(r == 44);
#endif
#if SZ >= 12 && SZ < 44
	VT_WITNESS(r > (int)sz);	/* tags present, header incomplete */
#elif SZ < 12
	VT_WITNESS(r < 0);		/* the RIFF/WAVE tags cannot both be present */
#else
	VT_WITNESS(r > (int)sz);
#endif
}

/* whatever structure results, the three helpers terminate without faulting (cbmc's own checks:
 * dereference, bounds, division by zero) */
void h_helpers(void)
{
	VT_LOAD();
	uint32_t sz = SZ;
	uint8_t *p = exact_copy(sz);
	rf_wavheader_t wh;
	int r = rf_wavheader_decode(p, sz, &wh);
	int v = rf_wavheader_validate(&wh);
	rf_wavheader_format_t f = rf_wavheader_get_format(&wh);
	VT_ASSERT(f >= RF_WAVHEADER_UNKNOWN && f <= RF_WAVHEADER_FLOAT);
	VT_ASSERT(v == 0 || v < 0);
	char *s = rf_wavheader_tostring(&wh);
	(void)s;
#if SZ >= 58
	VT_WITNESS(r >= 0 && v == 0 && f == RF_WAVHEADER_FLOAT);
#elif SZ >= 12
	VT_WITNESS(r >= 0);
#else
	VT_WITNESS(r < 0);
#endif
}

/* the same three helpers on a structure with arbitrary contents (not only decoder output) */
struct vt_in_wh { rf_wavheader_t wh; };
void h_helpers_any(void)
{
	VT_LOAD();
	rf_wavheader_t wh;
	memset(&wh, 0, sizeof(wh));
	/* fill every field from symbolic bytes */
	uint8_t *d = (uint8_t *)&wh;
	for (unsigned i = 0; i < sizeof(wh) && i < MAXB; i++) d[i] = in.b[i];
	(void)rf_wavheader_validate(&wh);
	(void)rf_wavheader_get_format(&wh);
	(void)rf_wavheader_tostring(&wh);
	VT_WITNESS(wh.block_align == 7);
}
