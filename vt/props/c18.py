from .. import gens
from ..core import Query

GEN = gens.ir_gen("c18_agents.c", "c18_gen.c", [("hex_get_byte", "plain", "hex_get_byte_ir")])
META = {
    "level": "model_checking",
    "functions": ["hex_dump_to_file", "hexchar (C source, cbmc)", "hex_get_byte", "nibble (clang-14 IR -> vt/ir2c.py plain mode -> cbmc)"],
    "units": ["librfn/hex.c"],
    "bounds": {"quick": "parser: ONE hex_get_byte call (first-call and resumed form) from any position of every string of length 0..5 over all byte values but NUL, "
                        "one query per length, exactly-sized heap string; round trip: every 1- and 2-byte array; dump format: every array of 0,1,15,16,17,31,32,33 bytes",
               "thorough": "parser strings up to length 7, round trip as quick, addressed lines with and without a space after the colon, dump for every length 0..48"},
    "outside": ["strings longer than 8 characters as a single query (the per-call lemma is position-independent: a call only looks at the text from its own position on, and "
                "strict progress + 'stays inside the string' compose over repeated calls by induction on the remaining length)",
                "the exact bytes returned for arbitrary non-dump text (the statement only constrains safety, range and termination there)"],
    "assumptions": ["hex_get_byte is checked on clang-14's -O1 IR translated by vt/ir2c.py into one dispatch loop, because cbmc merges the C source's two overlapping goto loops and "
                    "cannot bound them (DESIGN.md C18); isspace / isxdigit / strchr are cbmc's C-library models (-D__NO_CTYPE), strchr's loop bound is the string length",
                    "fprintf in hex_dump_to_file is a fixed-arity capture stub; the round-trip harness feeds the parser the text whose format c18_dump.c proves"],
    "rule": "distinct = lemma x length.",
}


def call_q(L, role="prove", mutate=None, timeout=3600, name=None):
    return Query(name or "c18-call-len%d" % L, "c18.c", "h_call", defines={"LEN": L}, unwind=L + 3,
                 unwindset="hex_get_byte_ir.0:%d" % (8 * L + 12), gen=GEN, timeout=timeout, mem_gb=12, role=role, mutate=mutate)


def rt_q(nb, role="prove", mutate=None, name=None):
    # NB bytes -> 2*NB+1 characters; NB+2 parser calls
    return Query(name or "c18-roundtrip-%dbytes" % nb, "c18.c", "h_roundtrip", defines={"NB": nb, "LEN": 2}, unwind=nb + 4,
                 unwindset="hex_get_byte_ir.0:%d" % (8 * (2 * nb + 1) + 12), gen=GEN, timeout=3600, mem_gb=12, role=role, mutate=mutate)


def lines_q(sp, role="prove", mutate=None, name=None):
    n = 11 if sp else 9
    return Query(name or "c18-addressed-lines-%s" % ("space" if sp else "nospace"), "c18.c", "h_lines", defines={"LEN": 5, "SP": sp}, unwind=n + 4,
                 unwindset="hex_get_byte_ir.0:%d" % (n + 16), gen=GEN, timeout=3600, mem_gb=12, role=role, mutate=mutate)


def dump_q(nb, role="prove", mutate=None, name=None):
    return Query(name or "c18-dump-%dbytes" % nb, "c18_dump.c", "h_dump", defines={"NB": nb}, unwind=nb + 3, timeout=600, mem_gb=4, role=role, mutate=mutate)


def queries(tier, kf):
    lmax = 5 if tier == "quick" else 7
    qs = [call_q(L) for L in range(0, lmax + 1)]
    qs += [rt_q(1), rt_q(2)]
    qs += [lines_q(0)] + ([lines_q(1)] if tier == "thorough" else [])
    qs += [dump_q(n) for n in ((0, 1, 15, 16, 17, 31, 32, 33) if tier == "quick" else range(0, 49))]
    cans = [("parser-overread", call_q(4, role="canary", name="c18-canary-parser-overread",
                                        mutate=[("librfn/hex.c", "\tif (isxdigit((int) s[0]) && isxdigit((int) s[1])) {", "\tif (isxdigit((int) s[0]) && isxdigit((int) s[2])) {")])),
            ("parser-progress", call_q(4, role="canary", name="c18-canary-parser-progress",
                                        mutate=[("librfn/hex.c", "\t\t*p = s + 2;", "\t\t*p = s + 1;")])),
            ("nibble-case", rt_q(1, role="canary", name="c18-canary-nibble-case",
                                  mutate=[("librfn/hex.c", "\treturn (h & ~('a' - 'A')) - 'A' + 10;", "\treturn h - 'A' + 10;")])),
            ("dump-width", dump_q(17, role="canary", name="c18-canary-dump-width", mutate=[("librfn/hex.c", "\t\t     i<16 && sz > 0;", "\t\t     i<=16 && sz > 0;")]))]
    qs += [c for _, c in cans]
    return qs
