/* Common harness prelude.
 *
 * Every harness draws all of its symbolic inputs from one struct `in`
 * (type struct vt_in, defined by the harness before including this file with
 * VT_IN_DEFINED).  Under cbmc `in` is one nondeterministic value; under
 * -DVT_REPLAY it is loaded from the assignment the solver produced, so the very
 * same harness runs natively (gcc, ASan+UBSan) against the real sources.
 */
#ifndef VT_H_
#define VT_H_
#include <assert.h>
#include <stdint.h>
#include <stddef.h>
#include <stdbool.h>
#include <string.h>

struct vt_in;
#ifdef VT_REPLAY
#include <stdio.h>
#include <stdlib.h>
#define __CPROVER_assume(c) do { if (!(c)) { fprintf(stderr, "VT: assumption not satisfied: %s\n", #c); exit(77); } } while (0)
#define VT_ASSERT(c) do { if (!(c)) { fprintf(stderr, "VT-ASSERT-FAILED %s:%d: %s\n", __FILE__, __LINE__, #c); exit(1); } } while (0)
#define VT_WITNESS(c) ((void)0)
#define VT_LOAD() vt_replay_load(&in)
#define VT_MALLOC(n) malloc((n) ? (n) : 1)
#define VT_MUL_OVERFLOW_U32(a, b) ((uint64_t)(uint32_t)(a) * (uint32_t)(b) > 0xffffffffull)
#define VT_IN_OBJECT(p, base, n) ((char *)(p) >= (char *)(base) && (char *)(p) < (char *)(base) + (n))
#else
#define VT_ASSERT(c) __CPROVER_assert((c), #c)
/* reachability witness: this "assertion" is REQUIRED to fail, i.e. c must be reachable */
#define VT_WITNESS(c) __CPROVER_assert(!(c), "VT_WITNESS " #c)
#define VT_LOAD() (in = nondet_vt_in())
#define VT_MALLOC(n) malloc(n)
#define VT_MUL_OVERFLOW_U32(a, b) __CPROVER_overflow_mult((uint32_t)(a), (uint32_t)(b))
/* comparing pointers into different objects is itself flagged by cbmc, so ask for the object first */
#define VT_IN_OBJECT(p, base, n) (__CPROVER_same_object((p), (base)) && __CPROVER_POINTER_OFFSET(p) >= __CPROVER_POINTER_OFFSET(base) && __CPROVER_POINTER_OFFSET(p) < __CPROVER_POINTER_OFFSET(base) + (n))
#endif

#endif
