/* C05 agents: plain C that calls the real ring buffer API; compiled with clang-14 together with the real ringbuf.c so
 * that each agent becomes one call-free function in the IR, then translated by vt/ir2c.py into a step machine. */
#include "librfn/ringbuf.c"
extern int vt_value(unsigned i);		/* the i-th byte to send (harness input) */
extern void vt_event(int code, int arg);	/* ghost event: call begin / call end */
extern void vt_yield(void);			/* step boundary between two operations (so that "handler runs to completion" means one call) */
enum { EV_PUT_BEGIN = 1, EV_PUT_END, EV_GET_BEGIN, EV_GET_END, EV_EMPTY_BEGIN, EV_EMPTY_END };

void producer(ringbuf_t *rb, unsigned n)
{
	for (unsigned i = 0; i < n; i++) {
		int v = vt_value(i);
		vt_event(EV_PUT_BEGIN, v);
		bool ok = ringbuf_put(rb, (uint8_t)v);
		vt_event(EV_PUT_END, ok);
		vt_yield();
	}
}

/* ringbuf_putchar spins until there is room: only usable while a consumer makes progress */
void producer_putchar(ringbuf_t *rb, unsigned n)
{
	for (unsigned i = 0; i < n; i++) {
		int v = vt_value(i);
		vt_event(EV_PUT_BEGIN, v);
		ringbuf_putchar(rb, (char)v);
		vt_event(EV_PUT_END, 1);
		vt_yield();
	}
}

void consumer(ringbuf_t *rb, unsigned n)
{
	for (unsigned i = 0; i < n; i++) {
		vt_event(EV_GET_BEGIN, 0);
		int d = ringbuf_get(rb);
		vt_event(EV_GET_END, d);
		vt_yield();
	}
}

/* polls ringbuf_empty first, reads only when it reports data */
void consumer_poll(ringbuf_t *rb, unsigned n)
{
	for (unsigned i = 0; i < n; i++) {
		vt_event(EV_EMPTY_BEGIN, 0);
		bool e = ringbuf_empty(rb);
		vt_event(EV_EMPTY_END, e);
		if (!e) {
			vt_event(EV_GET_BEGIN, 1);	/* arg 1: must not come back empty-handed */
			int d = ringbuf_get(rb);
			vt_event(EV_GET_END, d);
		}
		vt_yield();
	}
}
