from ..core import Query

U = ["librfn/bitops.c"]
META = {
    "level": "model_checking",
    "functions": ["bitcnt", "clz", "ctz", "ilog2", "const_pop (macro, run-time argument)", "const_lssb (macro, run-time argument)"],
    "units": ["librfn/bitops.c", "include/librfn/constexpr.h"],
    "bounds": "none beyond the argument width: every query covers all 2^32 (functions) or all 2^64 (macros) argument values; "
              "reference loops fully unrolled (unwind 65 with unwinding assertions)",
    "outside": ["compile-time evaluation by compilers other than the two front ends used here (goto-cc, gcc): the macros are "
                "pure integer constant expressions, 385 constant instances are folded by _Static_assert/enum in the harness"],
    "assumptions": ["ilog2: x != 0 (documented precondition, the function asserts it)"],
    "rule": "distinct = one function or macro over its whole argument domain.",
}


def queries(tier, kf):
    qs = []
    for fn in ("bitcnt", "clz", "ctz", "ilog2", "const_pop", "const_lssb", "const_u32", "const_fold"):
        qs.append(Query("c16-" + fn, "c16.c", "h_" + fn, units=U, unwind=65, timeout=300))
    # canaries: realistic one-token slips that the suite's 20 constants may or may not see
    qs.append(Query("c16-canary-bitcnt-mask", "c16.c", "h_bitcnt", units=U, unwind=65, role="canary",
                    mutate=[("librfn/bitops.c", "x = (x + (x >> 4)) & 0x0F0F0F0F;", "x = (x + (x >> 4)) & 0x0F0F0F07;")]))
    qs.append(Query("c16-canary-clz-shift", "c16.c", "h_clz", units=U, unwind=65, role="canary",
                    mutate=[("librfn/bitops.c", "x = x | (x >>16);", "x = x | (x >>15);")]))
    qs.append(Query("c16-canary-lssb32", "c16.c", "h_const_lssb", units=U, unwind=65, role="canary",
                    mutate=[("include/librfn/constexpr.h", "const_lssb32(c >> 32) + 32)", "const_lssb32(c >> 32) + 31)")]))
    if tier == "thorough":
        for fn in ("bitcnt", "const_lssb"):
            qs.append(Query("c16-%s-nosimplify" % fn, "c16.c", "h_" + fn, units=U, unwind=65, no_simplify=True,
                            note="tool cross-check: same query with cbmc's expression simplifier off"))
        for fn in ("clz", "const_pop"):
            qs.append(Query("c16-%s-kissat" % fn, "c16.c", "h_" + fn, units=U, unwind=65, backend="kissat",
                            note="back-end cross-check: same query decided by kissat"))
    return qs
