/* C18: the real hex.c, lowered by clang-14 to IR and translated by vt/ir2c.py in plain mode (one dispatch loop), because
 * cbmc cannot bound the overlapping goto loops of hex_get_byte on the C source (DESIGN.md C18). */
#include "librfn/hex.c"
