/* C15 piece 4: console_eval injects a string exactly once and completes.
 * The console is an exactly-sized heap object, so any access outside console_t is a cbmc dereference failure
 * (and an ASan report in the native replay).  The consumer side is modelled by draining the ring between
 * invocations (any number >= 1 of characters each time the injection yields). */
#include "c15_common.h"
#ifndef LEN
#define LEN 4
#endif
struct vt_in { char s[LEN + 1]; uint8_t len; uint8_t drain[LEN + 2]; uint8_t prefill; };
#include "vt_in.h"

void h_eval(void)
{
	VT_LOAD();
	console_t *c = VT_MALLOC(sizeof(console_t));
	__CPROVER_assume(c != 0);
	console_init(c, 0);
	unsigned len = in.len;
	__CPROVER_assume(len <= LEN);
	char cmd[LEN + 1];
	for (unsigned i = 0; i < LEN + 1; i++) { cmd[i] = 0; if (i < len) { __CPROVER_assume(in.s[i] != 0); cmd[i] = in.s[i]; } }
	/* the ring (capacity 15) already holds `prefill` characters typed earlier, so that even a short string meets a full ring */
	unsigned pre = in.prefill;
	__CPROVER_assume(pre <= 15);
	for (unsigned k = 0; k < 15; k++) if (k < pre) { bool ok = ringbuf_put(&c->ring, 'z'); VT_ASSERT(ok); }
	unsigned skip = pre;
	char got[LEN + 1]; unsigned ngot = 0;
	pt_t pt; PT_INIT(&pt);
	pt_state_t st = PT_YIELDED;
	unsigned rounds = 0;
	for (unsigned r = 0; r < LEN + 2 && st == PT_YIELDED; r++) {
		st = console_eval(&pt, c, cmd);
		rounds++;
		VT_ASSERT(st == PT_YIELDED || st == PT_EXITED);
		/* the console side consumes some characters */
		unsigned d = in.drain[r];
		__CPROVER_assume(d >= 1 && d <= 16);
		if (st == PT_EXITED) d = 16;
		for (unsigned k = 0; k < 16; k++) if (k < d) { int ch = console_getch(c); if (ch >= 0) { if (skip) { VT_ASSERT(ch == 'z'); skip--; } else { VT_ASSERT(ngot < LEN); got[ngot++] = (char)ch; } } }
	}
	VT_ASSERT(st == PT_EXITED);					/* the injection completes */
	VT_ASSERT(ngot == len);						/* executed once: every character exactly once ... */
	for (unsigned i = 0; i < LEN; i++) if (i < len) VT_ASSERT(got[i] == cmd[i]);	/* ... in order */
	VT_WITNESS(len == LEN && rounds > 2 && pre == 15);				/* long enough to fill the ring and yield */
	VT_WITNESS(len == 0);
}
