from ..core import Query

META = {
    "level": "model_checking",
    "functions": ["fibre_scheduler_next", "fibre_run", "fibre_kill", "fibre_run_atomic", "fibre_timeout", "fibre_eventq_claim", "fibre_eventq_send", "fibre_eventq_receive",
                  "fibre_eventq_release", "handle_atomic_runq", "handle_timerq", "update_current_state", "get_next_wakeup", "messageq_*", "list_*"],
    "units": ["librfn/fibre.c, messageq.c, list.c, util.c - all included into the harness TU and compiled with the shim <stdatomic.h> (harness/shim)"],
    "bounds": {"quick": "every placement of 1 interrupt handler (thorough: 2) (real fibre_run_atomic(f) for any of 3 fibres; fibre_eventq_claim + write + fibre_eventq_send; or - with 2 handlers - two claims with only the second sent, the first sent by the later handler) "
                        "before any atomic operation the main context executes during 2 scheduler passes (+ an interruptible fibre_run between them, an optional "
                        "fibre_kill), then <= 4 passes with interrupts off until idle; event-handling, yielding (0..2 yields) and sleeping fibre; pass times symbolic",
               "thorough": "2 handlers over 2 passes"},
    "outside": ["handlers interrupting handlers: under run-to-completion semantics the main context only observes the request queue after all nested handlers finished, "
                "which is exactly C04's interrupt-discipline result on the same messageq code (composition, stated as a premise)",
                "free-running threads instead of interrupts (would need the scheduler itself as an IR step machine; not built)",
                "preemption points are atomic operations; the plain read of the slot between messageq_receive and messageq_release is not a preemption point "
                "(a handler cannot touch a received-but-unreleased slot: C04)",
                "interrupts during fibre_kill", "a change that REMOVES an atomic operation also removes the preemption point in front of it (e.g. dropping the final messageq_empty "
                "check from get_next_wakeup is caught by C03's sequential query, not here); a slot read after an early release is likewise invisible to this harness", "more than 3 interrupt-context calls; console_putchar's use of the path is covered through fibre_run_atomic itself"],
    "assumptions": ["shim <stdatomic.h>: one core, sequentially consistent, interrupt possible immediately before each atomic operation",
                    "lost-wake-up rule: an accepted fibre_run_atomic sets pending[f]; f's next body entry (or a later fibre_kill) clears it; at idle nothing may be pending"],
    "rule": "distinct = number of handlers x passes.",
}


def q(name, nirq, npass, ndrain, role="prove", mutate=None, timeout=2400, extra=None):
    uw = "handle_atomic_runq.0:%d,h_irq.0:%d,h_irq.1:%d,queues_well_formed.0:5,queues_well_formed.1:5,queues_well_formed.2:5,queues_well_formed.3:5" % (nirq + 2, npass + 1, ndrain + 1)
    return Query(name, "c06.c", "h_irq", defines=dict({"NIRQ": nirq, "NPASS": npass, "NDRAIN": ndrain}, **(extra or {})), unwind=5, unwindset=uw, cc_flags=["-I", "harness/shim"],
                 timeout=timeout, mem_gb=14, object_bits=12, role=role, mutate=mutate,
                 tolerate=[(r"arithmetic overflow on signed shl", "1 << slot in messageq (signed-shift class, see C10)")])


def queries(tier, kf):
    qs = [q("c06-irq1-pass2", 1, 2, 4), q("c06-irq2-events-out-of-order", 2, 2, 4, extra={"EVENTS_OUT_OF_ORDER": None})]
    if tier == "thorough":
        qs += [q("c06-irq2-pass2", 2, 2, 4, timeout=7200)]
    cans = [("request-not-published", "\t*queued_fibre = f;\n\tmessageq_send(&kernel.atomic_runq, queued_fibre);\n\treturn true;", "\t*queued_fibre = f;\n\treturn true;"),
            ("drain-drops-while-running", "\t\tmake_runnable(*f);\n\t\tmessageq_release", "\t\tif (!kernel.current || kernel.state != FIBRE_STATE_WAITING)\n\t\t\tmake_runnable(*f);\n\t\tmessageq_release")]
    for n, old, new in cans:
        qs.append(q("c06-canary-" + n, 1, 2, 4, role="canary", mutate=[("librfn/fibre.c", old, new)]))
    return qs
