from ..core import Query

UF = ["librfn/fibre.c", "librfn/list.c", "librfn/messageq.c", "librfn/util.c", "librfn/ringbuf.c"]
META = {
    "level": "model_checking",
    "functions": ["do_tokenize", "find_command", "console_register", "console_run", "do_prompt", "console_getch", "console_eval", "console_init",
                  "ringbuf_put/ringbuf_get as used by the console"],
    "units": ["librfn/console.c (included into the harness TU to reach cmd_table and the static helpers)", "librfn/ringbuf.c", "librfn/fibre.c", "librfn/list.c", "librfn/messageq.c"],
    "bounds": {"quick": "tokenizer: every line of 10 characters over all byte values but NUL; editor: any line of <= 6 characters (and lines of exactly 77/78/79 "
                        "characters with 7 symbolic positions) + one input byte (all values but NUL) through the real console_run; lookup over any sorted "
                        "table of <= 4 symbolic names; registration into it incl. tables with 31 and 32 occupied slots; console_eval of any string <= 4 "
                        "characters into a ring pre-filled with 0..15 characters, consumer draining 1..16 characters per yield",
               "thorough": "tokenizer lines of 10, 12 and 16 characters; editor additionally with two consecutive input bytes from any line of <= 2 characters, and with a command that yields once before it exits"},
    "outside": ["the whole pipeline per character from console_init (no verdict in 1200 s even for 2 symbolic characters): console_process and console_putchar are "
                "ringbuf_put + a call/wake-up of console_run, whose every step IS covered from an arbitrary editor state; their composition is by inspection",
                "lines that start with white space or a quote, empty quoted arguments, a closing quote not followed by white space, more than four tokens: "
                "the statement does not fix their meaning - memory-safety clauses only",
                "NUL as an input character (not in the property's alphabet)", "commands that yield: thorough tier only (one yield)", "console_gpio, libopencm3 glue"],
    "assumptions": ["fprintf/fflush are no-ops, console_hwinit is empty", "ctype predicates: cbmc's C-locale models (-D__NO_CTYPE)",
                    "editor representation invariant: bufp = buf + n, buf[0..n) = the edited line, buf[n..80) = 0; re-established by every step (asserted)"],
    "rule": "distinct = harness entry x size parameter.",
}


def queries(tier, kf):
    qs = []
    for L in ((10,) if tier == "quick" else (10, 12, 16)):
        qs.append(Query("c15-tok-len%d" % L, "c15_tok.c", "h_tok", units=UF, defines={"LEN": L}, unwind=82, timeout=1800, mem_gb=8))
    def uw(ln):
        return ("do_tokenize.0:%d,do_tokenize.1:5,strlen.0:%d,strcmp.0:4,find_command.0:4,h_edit.0:81,h_edit.1:81,h_edit.2:81,h_edit.3:81,"
                "h_edit.4:81,cap.0:5,console_echo.0:5" % (ln + 3, ln + 3))
    qs.append(Query("c15-edit-1step", "c15_edit.c", "h_edit", units=UF, defines={"NMAX": 6, "NSTEP": 1}, unwind=3, unwindset=uw(7), timeout=1800, mem_gb=8))
    if tier == "thorough":
        qs.append(Query("c15-edit-1step-yielding-cmd", "c15_edit.c", "h_edit", units=UF, defines={"NMAX": 4, "NSTEP": 1, "CMD_YIELDS": None}, unwind=3, unwindset=uw(5),
                        timeout=1800, mem_gb=10, object_bits=12, note="the registered command yields once before exiting: the yield is relayed and the command resumed"))
    if tier == "thorough":
        qs.append(Query("c15-edit-2step", "c15_edit.c", "h_edit", units=UF, defines={"NMAX": 2, "NSTEP": 2}, unwind=3, unwindset=uw(4), timeout=1800, mem_gb=8, object_bits=12))
    for nf in (77, 78, 79):
        qs.append(Query("c15-edit-limit-n%d" % nf, "c15_edit.c", "h_edit", units=UF, defines={"NFIX": nf, "NSTEP": 1}, unwind=3, unwindset=uw(80), timeout=2400, mem_gb=10, object_bits=12))
    UC = "find_command.0:7,strcmp.0:5,console_register.0:34,console_register.1:34,build_table.0:34,build_table.1:7,build_table.2:7,scmp.0:4,h_find.0:5,h_find.1:6,h_register.0:34,h_register.1:34,h_register.2:34,h_register.3:34,h_register.4:34,h_register.5:4"
    qs.append(Query("c15-find", "c15_cmd.c", "h_find", units=UF, defines={"T": 4}, unwind=4, unwindset=UC, timeout=1200, mem_gb=8))
    qs.append(Query("c15-register", "c15_cmd.c", "h_register", units=UF, defines={"T": 4}, unwind=4, unwindset=UC, timeout=1200, mem_gb=8))
    for full in (31, 32):
        qs.append(Query("c15-register-total%d" % full, "c15_cmd.c", "h_register", units=UF, defines={"T": 2, "FULL": full}, unwind=4,
                        unwindset=UC.replace("find_command.0:7", "find_command.0:34"), timeout=1200, mem_gb=8))
    qs.append(Query("c15-eval", "c15_eval.c", "h_eval", units=UF, defines={"LEN": 4}, unwind=3,
                    unwindset="h_eval.0:18,h_eval.1:18,h_eval.2:18,h_eval.3:18,h_eval.4:18,h_eval.5:18,h_eval.6:18,console_eval.0:8,console_eval.1:8,console_eval.2:8,console_eval.3:8,handle_atomic_runq.0:2,list_contains.0:3",
                    timeout=1200, mem_gb=8, object_bits=10))
    cans = [("tok-argc", "c15_tok.c", "h_tok", {"LEN": 10}, 82, None, "if (++c->argc >= (int) lengthof(c->argv))", "if (++c->argc > (int) lengthof(c->argv))"),
            ("edit-limit", "c15_edit.c", "h_edit", {"NFIX": 79, "NSTEP": 1}, 3, uw(80), "c->bufp >= &c->scratch.buf[79]", "c->bufp > &c->scratch.buf[79]"),
            ("find-exact", "c15_cmd.c", "h_find", {"T": 4}, 4, UC, "if (0 == strcmp(c->argv[0], (*cmd)->name))", "if (0 == strncmp(c->argv[0], (*cmd)->name, strlen(c->argv[0])))"),
            ("register-full", "c15_cmd.c", "h_register", {"T": 2, "FULL": 32}, 4, UC.replace("find_command.0:7", "find_command.0:34"), "if (cmd_table[lengthof(cmd_table)-1])", "if (cmd_table[lengthof(cmd_table)-1] && 0)")]
    for n, h, e, d, u, us, old, new in cans:
        qs.append(Query("c15-canary-" + n, h, e, units=UF, defines=d, unwind=u, unwindset=us, role="canary", mutate=[("librfn/console.c", old, new)],
                        timeout=1800, mem_gb=10, object_bits=12))
    return qs
