#!/bin/bash
# usage: seedcheck.sh <ID> [<seed-name>]   -- confirm a seeded change produced in /tmp/wt-<ID> + /tmp/seed-<ID>, run our check against it, archive it
# 1. the change compiles and the repo's own tests pass; 2. the demo fails with it and passes without; 3. ./check <ID> on /repo with the patch applied
ID=$1; NAME=${2:-$ID}; WT=/tmp/wt-$NAME; SD=/tmp/seed-$NAME; OUT=/verif/seeded/$NAME
set -u
mkdir -p $OUT
cp $SD/patch.diff $SD/demo.c $OUT/ 2>/dev/null; cp $SD/NOTES.md $OUT/ 2>/dev/null
cd $WT || exit 1
git diff > $OUT/patch.diff
T=$( (autoreconf -i >/dev/null 2>&1; ./configure >/dev/null 2>&1; make -j8 check 2>&1) | grep -E "^# (PASS|FAIL|ERROR):" | tr -d ' \n')
CMD=$(python3 - $SD/demo.c <<'PY'
import sys,re
L=open(sys.argv[1]).read().split("\n")
out=[]; on=False
for l in L:
    t=re.sub(r"^[ /*]*","",l); t=re.sub(r"\*/\s*$","",t).rstrip()
    if not on and re.search(r"\b(gcc|cc|clang)\b",t): on=True
    if on:
        out.append(t.rstrip("\\").strip())
        if not t.endswith("\\"): break
print(re.sub(r";\s*echo .*$",""," ".join(out)))
PY
)
run_demo() { ( cd $WT && rm -f $SD/demo && eval "$CMD" >/tmp/seed-demo.log 2>&1; echo $? ); }
WITH=$(run_demo)
git stash -q
WITHOUT=$(run_demo)
git stash pop -q
cd /verif
if [ -n "${SEED_COPY:-}" ]; then
  # run against a patched copy of /repo's HEAD so that /repo itself stays untouched (several seeds can be evaluated at once)
  RC_DIR=/tmp/repo-$NAME; rm -rf $RC_DIR; mkdir -p $RC_DIR /tmp/ev-$NAME
  git -C /repo archive HEAD | tar -x -C $RC_DIR
  (cd $RC_DIR && patch -p1 -s < $OUT/patch.diff) || { echo "patch does not apply to the copy"; exit 1; }
  START=$(date +%s)
  VERIF_REPO=$RC_DIR VERIF_EVIDENCE_DIR=/tmp/ev-$NAME ./check $ID ${CHECK_ARGS:-} > $OUT/check.log 2>&1; RC=$?
  END=$(date +%s)
  rm -rf $RC_DIR /tmp/ev-$NAME
  WHERE="a copy of /repo HEAD (VERIF_REPO) with patch.diff applied, removed afterwards"
else
git -C /repo apply $OUT/patch.diff || { echo "patch does not apply to /repo"; exit 1; }
cp evidence/$ID.json /tmp/evidence-$ID.bak 2>/dev/null
START=$(date +%s)
./check $ID ${CHECK_ARGS:-} > $OUT/check.log 2>&1; RC=$?
END=$(date +%s)
git -C /repo checkout -- .
cp /tmp/evidence-$ID.bak evidence/$ID.json 2>/dev/null   # evidence must describe the unchanged tree
  WHERE="patch.diff applied to /repo, undone afterwards"
fi
VIOL=$(grep -c "^VIOLATION" $OUT/check.log)
CMD="$CMD" python3 - <<PY
import json
import os
json.dump({"property":"$ID","seed":"$NAME","tests_with_change":"$T","demo_exit_with_change":$WITH,"demo_exit_without_change":$WITHOUT,
 "demo_cmd":os.environ.get("CMD",""),"check_cmd":"./check $ID ${CHECK_ARGS:-} (quick tier) on $WHERE","check_exit":$RC,
 "violation_lines":$VIOL,"check_seconds":$((END-START)),"needs_to_manifest":"see NOTES.md"}, open("$OUT/meta.json","w"), indent=1)
PY
echo "$NAME: tests[$T] demo with=$WITH without=$WITHOUT check rc=$RC violations=$VIOL ($((END-START)) s)"
tail -3 $OUT/check.log
