/* C11: tree iterators visit in the promised order, restore the tree, and free safely.
 * Real code: librfn/bintree.c (linked); the recursive traversals of the same file are the order oracle.
 * The SHAPE is symbolic: child indices l[i], r[i] in {-1} u (i, n), every non-root has exactly one parent - every
 * binary tree with n nodes has exactly one such numbering per pre-order labelling, so all shapes are covered. */
#include "vt.h"
#include <stdlib.h>
#include "librfn/bintree.h"
#include "librfn/util.h"
#ifndef NMAX
#define NMAX 4
#endif
struct vt_in { uint8_t n; int8_t l[NMAX], r[NMAX]; uint8_t k, dir, tailnull; };
#include "vt_in.h"

struct tn { bintree_node_t n; bool islist; };
static struct tn pool[NMAX];
static bintree_node_t *nd[NMAX];
static int n_nodes;
static int L[NMAX], R[NMAX];

static int idx(bintree_node_t *p) { for (int i = 0; i < NMAX; i++) if (i < n_nodes && p == nd[i]) return i; return -1; }

static void shape(bool heap)
{
	int np[NMAX];
	n_nodes = in.n;
	__CPROVER_assume(n_nodes >= 1 && n_nodes <= NMAX);
	for (int i = 0; i < NMAX; i++) {
		np[i] = 0;
		if (heap) { nd[i] = VT_MALLOC(sizeof(bintree_node_t)); __CPROVER_assume(nd[i] != 0); }
		else nd[i] = &pool[i].n;
	}
	for (int i = 0; i < NMAX; i++) {
		L[i] = in.l[i]; R[i] = in.r[i];
		if (i >= n_nodes) { L[i] = R[i] = -1; continue; }
		__CPROVER_assume(L[i] == -1 || (L[i] > i && L[i] < n_nodes));
		__CPROVER_assume(R[i] == -1 || (R[i] > i && R[i] < n_nodes));
		__CPROVER_assume(L[i] == -1 || L[i] != R[i]);
		if (L[i] >= 0) np[L[i]]++;
		if (R[i] >= 0) np[R[i]]++;
	}
	for (int i = 1; i < NMAX; i++) if (i < n_nodes) __CPROVER_assume(np[i] == 1);
	for (int i = 0; i < NMAX; i++) if (i < n_nodes) { nd[i]->left = L[i] < 0 ? 0 : nd[L[i]]; nd[i]->right = R[i] < 0 ? 0 : nd[R[i]]; }
}

static void links_intact(void)
{
	for (int i = 0; i < NMAX; i++) if (i < n_nodes) {
		VT_ASSERT(nd[i]->left == (L[i] < 0 ? 0 : nd[L[i]]));	/* every link has its original value (no thread, no tag left behind) */
		VT_ASSERT(nd[i]->right == (R[i] < 0 ? 0 : nd[R[i]]));
	}
}

static int ref_seq[NMAX + 1], ref_n;
static void rec_visit(void *ctx, bintree_node_t *node, bintree_node_t *parent, int depth)
{
	(void)ctx; (void)parent; (void)depth;
	if (node) { VT_ASSERT(ref_n < NMAX); ref_seq[ref_n++] = idx(node); }
}

#define ITER_HARNESS(NAME, TRAVERSE, ITERATE)							\
void NAME(void)											\
{												\
	VT_LOAD();										\
	shape(false);										\
	ref_n = 0;										\
	TRAVERSE(nd[0], rec_visit, 0);								\
	VT_ASSERT(ref_n == n_nodes);								\
	bintree_iterator_t it;									\
	int cnt = 0;										\
	for (bintree_node_t *p = ITERATE(&it, nd[0]); p; p = bintree_next(&it)) {		\
		VT_ASSERT(cnt < n_nodes);		/* each node exactly once ... */	\
		VT_ASSERT(idx(p) == ref_seq[cnt]);	/* ... in the order of the recursive traversal */ \
		cnt++;										\
	}											\
	VT_ASSERT(cnt == n_nodes);								\
	VT_ASSERT(bintree_next(&it) == 0);		/* stays finished */			\
	links_intact();										\
	VT_WITNESS(n_nodes == NMAX && L[0] >= 0 && R[0] >= 0);	/* a branching shape */		\
	VT_WITNESS(n_nodes == NMAX && R[0] < 0 && R[1] < 0);	/* a left spine */		\
}
ITER_HARNESS(h_inorder, bintree_traverse_in_order, bintree_iterate_in_order)
ITER_HARNESS(h_preorder, bintree_traverse_pre_order, bintree_iterate_pre_order)
ITER_HARNESS(h_postorder, bintree_traverse_post_order, bintree_iterate_post_order)

/* iteration abandoned after j items and then run to completion: links restored all the same */
void h_complete(void)
{
	VT_LOAD();
	shape(false);
	bintree_iterator_t it;
	/* which iterator is a query parameter: bintree_next() dispatches through a function pointer, and a symbolic choice
	 * makes cbmc expand every call to all five iterator bodies */
#if DIR == 0
	bintree_node_t *p = bintree_iterate_in_order(&it, nd[0]);
#elif DIR == 1
	bintree_node_t *p = bintree_iterate_pre_order(&it, nd[0]);
#else
	bintree_node_t *p = bintree_iterate_post_order(&it, nd[0]);
#endif
	for (int j = 0; j < NMAX; j++) if (j < in.k && p) p = bintree_next(&it);
	bintree_iterate_complete(&it);
	links_intact();
	VT_WITNESS(in.k == 1 && n_nodes == NMAX);
}

/* the empty tree */
void h_empty(void)
{
	VT_LOAD();
	bintree_iterator_t it;
	VT_ASSERT(bintree_iterate_in_order(&it, 0) == 0 && bintree_next(&it) == 0);
	VT_ASSERT(bintree_iterate_pre_order(&it, 0) == 0 && bintree_next(&it) == 0);
	VT_ASSERT(bintree_iterate_post_order(&it, 0) == 0 && bintree_next(&it) == 0);
	VT_WITNESS(in.n == 0);
}

/* ---- list iterator on left- and right-leaning spines ---- */
static bool is_list(bintree_node_t *n) { return n && containerof(n, struct tn, n)->islist; }
static int lst_seq[NMAX + 1], lst_n;
static void lst_visit(void *ctx, bintree_node_t *n) { (void)ctx; VT_ASSERT(lst_n < NMAX); lst_seq[lst_n++] = idx(n); }
void h_list(void)
{
	VT_LOAD();
	/* spine of k list nodes 0..k-1, elements k..2k (k+1 of them); elements are non-list leaves */
	int k = in.k;
	__CPROVER_assume(2 * k + 1 <= NMAX && in.dir < 2 && in.tailnull < 2);
	n_nodes = 2 * k + 1;
	for (int i = 0; i < NMAX; i++) { nd[i] = &pool[i].n; pool[i].islist = i < k; pool[i].n.left = pool[i].n.right = 0; L[i] = R[i] = -1; }
	bool tailnull = in.tailnull && in.dir == 0 && k > 0;	/* a right-leaning list may end in NULL */
	for (int i = 0; i < NMAX; i++) if (i < k) {
		if (in.dir == 0) { L[i] = k + i; R[i] = i + 1 < k ? i + 1 : (tailnull ? -1 : 2 * k); }	/* right-leaning: element on the left, rest on the right */
		else { R[i] = k + i; L[i] = i + 1 < k ? i + 1 : 2 * k; }				/* left-leaning: rest on the left, element on the right */
	}
	for (int i = 0; i < NMAX; i++) if (i < n_nodes) { nd[i]->left = L[i] < 0 ? 0 : nd[L[i]]; nd[i]->right = R[i] < 0 ? 0 : nd[R[i]]; }
	lst_n = 0;
	bintree_traverse_list(nd[0], is_list, lst_visit, 0);
	VT_ASSERT(lst_n == k + 1 - (tailnull ? 1 : 0));
	bintree_iterator_t it;
	int cnt = 0;
	for (bintree_node_t *p = bintree_iterate_list(&it, nd[0], is_list); p; p = bintree_next(&it)) {
		VT_ASSERT(cnt < lst_n);
		VT_ASSERT(idx(p) == lst_seq[cnt]);
		cnt++;
	}
	VT_ASSERT(cnt == lst_n);
	links_intact();
	VT_WITNESS(in.dir == 1 && 2 * k + 1 == NMAX - (NMAX % 2 ? 0 : 1));	/* longest left-leaning spine */
	VT_WITNESS(in.dir == 0 && k > 0 && tailnull);
}

/* ---- bintree_free: heap nodes, free() is the deallocator, so cbmc's own "deallocated dynamic object" check is
 *      the use-after-free oracle and a second free of the same node is flagged ---- */
static int freed[NMAX], nfreed;
static void dealloc(bintree_node_t *n)
{
	int i = idx(n);
	VT_ASSERT(i >= 0);
	VT_ASSERT(!freed[i]);						/* exactly once */
	if (L[i] >= 0) VT_ASSERT(freed[L[i]]);
	if (R[i] >= 0) VT_ASSERT(freed[R[i]]);				/* children before parents */
	freed[i] = 1; nfreed++;
	free(n);
}
void h_free(void)
{
	VT_LOAD();
	shape(true);
	bintree_free(nd[0], dealloc);
	VT_ASSERT(nfreed == n_nodes);
	VT_WITNESS(n_nodes == NMAX && L[0] >= 0 && R[0] >= 0);
	VT_WITNESS(n_nodes == NMAX && L[0] < 0 && L[1] < 0);		/* right spine */
}
void h_free_lr(void)
{
	VT_LOAD();
	shape(true);
	__CPROVER_assume(in.dir < 2);
	int sub = in.dir ? R[0] : L[0];
	if (in.dir) bintree_free_right(nd[0], dealloc); else bintree_free_left(nd[0], dealloc);
	/* exactly the nodes of that subtree were deallocated, the parent's link is cleared, the rest is untouched */
	int expect = 0;
	bool insub[NMAX];
	for (int i = 0; i < NMAX; i++) insub[i] = false;
	if (sub >= 0) insub[sub] = true;
	for (int i = 1; i < NMAX; i++) if (i < n_nodes && insub[i]) { if (L[i] >= 0) insub[L[i]] = true; if (R[i] >= 0) insub[R[i]] = true; }
	for (int i = 0; i < NMAX; i++) if (i < n_nodes) { VT_ASSERT(freed[i] == (insub[i] ? 1 : 0)); expect += insub[i]; }
	VT_ASSERT(nfreed == expect);
	VT_ASSERT((in.dir ? nd[0]->right : nd[0]->left) == 0);
	for (int i = 0; i < NMAX; i++) if (i < n_nodes && !insub[i]) {
		if (!(i == 0 && !in.dir)) VT_ASSERT(nd[i]->left == (L[i] < 0 ? 0 : nd[L[i]]));
		if (!(i == 0 && in.dir)) VT_ASSERT(nd[i]->right == (R[i] < 0 ? 0 : nd[R[i]]));
	}
	VT_WITNESS(n_nodes == NMAX && sub >= 0 && expect == NMAX - 1);
}
