from .c01 import step, U, TOL
from ..core import Query

META = {
    "level": "model_checking",
    "functions": ["fibre_scheduler_next", "get_next_wakeup", "handle_timerq", "handle_atomic_runq", "messageq_empty", "fibre_run_atomic (interrupt part)"],
    "units": ["librfn/fibre.c (included into the harness TU)", "librfn/list.c", "librfn/messageq.c", "librfn/util.c"],
    "bounds": {"quick": "sequential part: one pass from ANY valid scheduler state over 2 fibres (thorough 3), time base any 32-bit value, body script <= 1 nested call "
                        "of each kind; interrupt part: see the c03-irq queries (every placement of <= 2 interrupt-context fibre_run_atomic calls at the atomic "
                        "operations of one pass, 2 fibres + 1 woken fibre)",
               "thorough": "as quick with 3 fibres"},
    "outside": ["nested interrupt handlers inside fibre_scheduler_next are covered as C04's interrupt-discipline result on the request queue plus the non-nested placements here (composition, DESIGN.md C06)",
                "requests that complete after the scheduler's final check (the documented WFE race, not required by the statement)",
                "preemption points are the scheduler's atomic operations; plain accesses between them commute with the handlers, which touch only the request queue"],
    "assumptions": ["as C01/C02; the shim <stdatomic.h> used by the interrupt harness models sequentially consistent atomics on one core"],
    "rule": "distinct = body-script kind x bounds.",
}
G = ["TIMERS", "WAKEUP"]


def queries(tier, kf):
    nfn = 2 if tier == "quick" else 3
    qs = [step("c03", 3, nfn, 1 if tier == "quick" else 2, 1, G, sop=sop, timeout=1500 if tier == "quick" else 7200) for sop in range(5)]
    from .c06 import q as irq_q
    qs.append(irq_q("c03-irq1-pass2", 1, 2, 4))     # interrupt part: the return value is asserted at every placement (harness/c06.c)
    if tier == "thorough":
        qs.append(irq_q("c03-irq2-pass2", 2, 2, 4, timeout=7200))
    cans = [("no-atomic-check", "\tif (!messageq_empty(&kernel.atomic_runq) || !list_empty(&kernel.runq))\n\t\treturn kernel.now;", "\tif (!list_empty(&kernel.runq))\n\t\treturn kernel.now;", 2),
            ("yield-sleeps", "\t\tif (kernel.state == FIBRE_STATE_YIELDED)\n\t\t\treturn kernel.now;", "", 0),
            ("unbounded", "return kernel.now + FIBRE_UNBOUNDED_SLEEP;", "return FIBRE_UNBOUNDED_SLEEP;", 0)]
    for n, old, new, sop in cans:
        qs.append(step("c03", 3, 2, 1, 1, G, role="canary", mutate=[("librfn/fibre.c", old, new)], name="c03-canary-" + n, sop=sop, timeout=1500))
    return qs
