/* C13: WAV headers round-trip and correctly describe the file they head.
 * Real code: librfn/wavheader.c + librfn/pack.c (linked). */
#include "vt.h"
#include <stdlib.h>
#include "librfn/wavheader.h"
#ifndef MAXB
#define MAXB 72
#endif
#ifndef SZ
#define SZ MAXB
#endif
struct vt_in { int32_t format; uint32_t channels, rate, frames, frames2; uint8_t twice; uint8_t prior[sizeof(rf_wavheader_t)]; uint8_t b[MAXB]; };
#include "vt_in.h"
char *strdup_printf(const char *fmt, ...) { (void)fmt; return 0; }

#define FIELDS_EQ(a, b) ( \
	!memcmp((a)->chunk_id, (b)->chunk_id, 4) && (a)->chunk_size == (b)->chunk_size && !memcmp((a)->format, (b)->format, 4) && \
	!memcmp((a)->fmt_chunk_id, (b)->fmt_chunk_id, 4) && (a)->fmt_chunk_size == (b)->fmt_chunk_size && \
	(a)->audio_format == (b)->audio_format && (a)->num_channels == (b)->num_channels && (a)->sample_rate == (b)->sample_rate && \
	(a)->byte_rate == (b)->byte_rate && (a)->block_align == (b)->block_align && (a)->bits_per_sample == (b)->bits_per_sample && \
	(a)->cb_size == (b)->cb_size && (a)->valid_bits_per_sample == (b)->valid_bits_per_sample && (a)->channel_mask == (b)->channel_mask && \
	!memcmp((a)->sub_format, (b)->sub_format, 16) && !memcmp((a)->fact_chunk_id, (b)->fact_chunk_id, 4) && \
	(a)->fact_chunk_size == (b)->fact_chunk_size && (a)->sample_length == (b)->sample_length && \
	!memcmp((a)->data_chunk_id, (b)->data_chunk_id, 4) && (a)->data_chunk_size == (b)->data_chunk_size)

/* A: init (+ set_num_frames once or twice) over every prior content of the structure */
void h_init(void)
{
	VT_LOAD();
	int fmt = in.format;
	__CPROVER_assume(fmt == RF_WAVHEADER_S16LE || fmt == RF_WAVHEADER_S32LE || fmt == RF_WAVHEADER_FLOAT);
	uint32_t bps = fmt == RF_WAVHEADER_S16LE ? 2 : 4;
	uint32_t ch = in.channels, rate = in.rate;
	__CPROVER_assume(ch >= 1 && ch <= 65535 && bps * ch <= 65535);			/* block alignment fits its 16-bit field */
	__CPROVER_assume(rate >= 1 && (uint64_t)rate * bps * ch <= 0x7fffffffu);		/* byte rate fits; the code computes it in int */
	uint32_t hdr = fmt == RF_WAVHEADER_FLOAT ? 58 : 44;
	uint32_t ba = (uint16_t)(bps * ch);
	/* sizes fit in 32 bits: frames x block alignment does not wrap and leaves room for the header.  The products
	 * are written exactly as the code computes them (32-bit, same operand order) so that the solver is not asked
	 * to prove two different multiplier circuits equivalent */
	__CPROVER_assume(!VT_MUL_OVERFLOW_U32(in.frames, ba) && !VT_MUL_OVERFLOW_U32(in.frames2, ba));
	uint32_t data1 = in.frames * ba, data2 = in.frames2 * ba;
	__CPROVER_assume(data1 <= 0xffffffffu - hdr && data2 <= 0xffffffffu - hdr);
	__CPROVER_assume(in.twice <= 1);

#ifdef SMALL_ARITH	/* structural harness: the round trip does not depend on magnitudes (h_init with ARITH_ONLY covers the full range) */
	__CPROVER_assume(ch <= 8 && rate <= (1u << 20) && in.frames <= (1u << 20) && in.frames2 <= (1u << 20));
#endif
	rf_wavheader_t wh;
	memcpy(&wh, in.prior, sizeof(wh));						/* whatever the structure held beforehand */
	rf_wavheader_init(&wh, (int)rate, (int)ch, (rf_wavheader_format_t)fmt);
	rf_wavheader_set_num_frames(&wh, in.frames);
	uint32_t frames = in.frames; uint32_t data = data1;
	if (in.twice) { rf_wavheader_set_num_frames(&wh, in.frames2); frames = in.frames2; data = data2; }

#ifndef ARITH_ONLY
	VT_ASSERT(rf_wavheader_validate(&wh) == 0);
	VT_ASSERT(rf_wavheader_get_format(&wh) == (rf_wavheader_format_t)fmt);
#endif
	/* size fields follow from channel count, sample width and rate (AR_PART splits the assertions over parallel queries) */
#if !defined(AR_PART) || AR_PART == 1
	VT_ASSERT(wh.block_align == bps * ch);
	VT_ASSERT(wh.bits_per_sample == 8 * bps);
	VT_ASSERT(wh.num_channels == ch && wh.sample_rate == rate);
#endif
#if !defined(AR_PART) || AR_PART == 2
	VT_ASSERT(wh.byte_rate == rate * bps * ch);
#endif
#if !defined(AR_PART) || AR_PART == 3
	VT_ASSERT(wh.data_chunk_size == data);						/* frames x block alignment (no wrap, by the precondition) */
#endif

#ifdef ARITH_ONLY
#if !defined(AR_PART) || AR_PART == 4
	/* the RIFF chunk size equals the number of bytes that follow it: encoded length (checked by the structural harness to be hdr) - 8 + data */
	VT_ASSERT((uint64_t)wh.chunk_size == (uint64_t)hdr - 8 + (uint64_t)data);
#endif
#if AR_PART == 1
	VT_WITNESS(fmt == RF_WAVHEADER_S16LE && ch == 32767 && in.twice);
#else
	VT_WITNESS(fmt == RF_WAVHEADER_FLOAT && rate == 192000 && ch == 3 && frames == 1000000);
#endif
#else
	uint8_t out[MAXB];
	int n = rf_wavheader_encode(&wh, out, sizeof(out));
	VT_ASSERT(n == (int)hdr);
	/* the RIFF chunk size equals the number of bytes that follow it in a file carrying exactly the declared data */
	VT_ASSERT((uint64_t)wh.chunk_size == (uint64_t)n - 8 + (uint64_t)data);
	rf_wavheader_t back;
	int m = rf_wavheader_decode(out, (unsigned)n, &back);
	VT_ASSERT(m == n);								/* same length */
	VT_ASSERT(FIELDS_EQ(&wh, &back));						/* identical structure */
	VT_WITNESS(fmt == RF_WAVHEADER_FLOAT && in.twice && ch == 3 && frames == 1000);
	VT_WITNESS(fmt == RF_WAVHEADER_S16LE && ch == 8);
#endif
}

/* B: every byte string (declared length SZ, one query per length) that decodes successfully re-encodes to
 * exactly those bytes, ignored extension bytes normalised to zero, same length */
void h_decode_first(void)
{
	VT_LOAD();
	uint32_t sz = SZ;
	uint8_t *p = VT_MALLOC(sz);
	__CPROVER_assume(p != 0);
	for (uint32_t i = 0; i < MAXB; i++) if (i < sz) p[i] = in.b[i];
	rf_wavheader_t wh;
	int r = rf_wavheader_decode(p, sz, &wh);
	if (r >= 0 && (uint32_t)r <= sz) {
		uint8_t *out = VT_MALLOC(sz);
		__CPROVER_assume(out != 0);
		for (uint32_t i = 0; i < MAXB; i++) if (i < sz) out[i] = 0xa5;
		int n = rf_wavheader_encode(&wh, out, sz);
		VT_ASSERT(n == r);
		uint32_t skip_lo = 0, skip_hi = 0;		/* extension bytes the decoder ignores */
		if (wh.fmt_chunk_size >= 18 && wh.cb_size != 22) { skip_lo = 38; skip_hi = 38 + (wh.fmt_chunk_size - 18); }
		for (uint32_t i = 0; i < MAXB; i++) if (i < (uint32_t)r) {
			if (i >= skip_lo && i < skip_hi) VT_ASSERT(out[i] == 0);
			else VT_ASSERT(out[i] == p[i]);
		}
		for (uint32_t i = 0; i < MAXB; i++) if (i >= (uint32_t)r && i < sz) VT_ASSERT(out[i] == 0xa5);	/* nothing beyond */
		/* and decoding the re-encoded bytes gives the same structure again */
		rf_wavheader_t again;
		int r3 = rf_wavheader_decode(out, (unsigned)n, &again);
		VT_ASSERT(r3 == r && FIELDS_EQ(&wh, &again));
#if SZ >= 80
		VT_WITNESS(r == 80 && wh.cb_size == 22 && wh.fact_chunk_size == 4);	/* extensible header with fact chunk */
#endif
#if SZ >= 68
		VT_WITNESS(r == 68 && wh.cb_size == 22 && wh.audio_format == 0xfffe);	/* extensible header */
#endif
#if SZ >= 58
		VT_WITNESS(r == 58 && wh.audio_format == 3 && wh.fact_chunk_size == 4);	/* IEEE float with fact chunk */
#endif
#if SZ >= 50
		VT_WITNESS(r == 50 && wh.fmt_chunk_size == 22 && wh.cb_size == 0);	/* extension present but ignored */
#endif
		VT_WITNESS(r == 44);
	}
}
