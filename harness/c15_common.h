/* C15 common prelude: the real console.c is #included so that its statics (cmd_table, do_tokenize, find_command,
 * do_prompt) are reachable; output formatting is stubbed out (formatting is not the subject). */
#include "vt.h"
#include <stdio.h>
#include <stdlib.h>
#include <ctype.h>
#define fprintf(...) ((void)0)
#define fflush(f) ((void)0)
#include "librfn/console.c"
#undef fprintf
#undef fflush
void console_hwinit(console_t *c) { (void)c; }
static bool is_ws(char ch) { return ch == ' ' || ch == '\t' || ch == '\n' || ch == '\v' || ch == '\f' || ch == '\r'; }
